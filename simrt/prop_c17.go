package simrt

import (
	"encoding/json"
	"errors"
	"fmt"
	"sort"
	"strings"
	"testing"
	"time"

	sebufhttp "github.com/SebastienMelki/sebuf/http"
	"github.com/anishathalye/porcupine"
	"google.golang.org/protobuf/proto"
	"pgregory.net/rapid"
)

// C17: a request's outcome does not depend on other requests, concurrent or earlier.
type propC17 struct{}

func init() { RegisterProperty(propC17{}) }

func (propC17) ID() string      { return "C17" }
func (propC17) Modes() []string { return []string{"isolation", "history", "coldstart"} }

// coldRPC: mode "coldstart#<i>" names the route a cold-start process hammers.
func coldRPC(mode string) (int, bool) {
	if !strings.HasPrefix(mode, "coldstart") {
		return 0, false
	}
	n := 0
	if i := strings.Index(mode, "#"); i >= 0 {
		fmt.Sscanf(mode[i+1:], "%d", &n)
	}
	return n, true
}

func (propC17) Draw(rt *rapid.T, w *WorldDesc, mode string) *Plan {
	p := &Plan{Race: true}
	methods := w.AllMethods()
	p.SharedHTTP = rapid.Bool().Draw(rt, "sharedHTTP")
	nClients := rapid.IntRange(1, 2).Draw(rt, "nClients")
	for i := 0; i < nClients; i++ {
		var opts []Opt
		if rapid.Bool().Draw(rt, fmt.Sprintf("client%d.proto", i)) {
			opts = append(opts, Opt{Kind: "contentType", Value: "application/x-protobuf"})
		}
		// client-level default headers: a marker plus valid values for service-level headers
		opts = append(opts, Opt{Kind: "header", Key: "X-Client-Marker", Value: fmt.Sprintf("client%d", i)})
		for _, f := range w.Spec().Files {
			for _, s := range f.Services {
				for hi, h := range s.Headers {
					if rapid.Bool().Draw(rt, fmt.Sprintf("client%d.%s.h%d", i, s.Name, hi)) {
						opts = append(opts, Opt{Kind: "header", Key: h.Name, Value: ValidHeaderValue(h, i)})
					}
				}
			}
		}
		p.Clients = append(p.Clients, opts)
	}
	coldIdx, cold := coldRPC(mode)
	if cold {
		// Cold start: the first requests of a process, all in flight together on ONE route (the
		// runner process executes only a handful of such plans, so lazily built process-wide
		// state - parse-once tables, reverse lookup maps, converter caches - is still unbuilt when
		// several requests reach it). Well-formed calls with payloads of their own.
		md := methods[coldIdx%len(methods)]
		rpc := w.RPC(md.Key)
		nOps := rapid.IntRange(2, 6).Draw(rt, "nOps")
		for i := 0; i < nOps; i++ {
			op := &Op{ID: i, RPC: md.Key, Client: "go", Server: "go"}
			op.ClientIdx = rapid.IntRange(0, nClients-1).Draw(rt, fmt.Sprintf("op%d.client", i))
			op.Opts = append(op.Opts, Opt{Kind: "header", Key: "X-Marker", Value: fmt.Sprintf("op%d", i)})
			for hi, h := range rpc.Headers {
				op.Opts = append(op.Opts, Opt{Kind: "header", Key: h.Name, Value: ValidHeaderValue(h, i+hi)})
			}
			req := drawReq(rt, w, md, fmt.Sprintf("op%d.req", i))
			op.ReqBin = mustMarshal(req)
			op.ReqJSON = jsonOf(req)
			resp := NewFilled(rt, md.NewResp, fmt.Sprintf("op%d.resp", i), nil)
			op.RespBin = mustMarshal(resp)
			op.App = AppBehaviour{Kind: "respond"}
			op.ReqChunks = drawChunks(rt, fmt.Sprintf("op%d.reqChunks", i))
			op.RespChunks = drawChunks(rt, fmt.Sprintf("op%d.respChunks", i))
			p.Ops = append(p.Ops, op)
		}
		p.Schedule = rapid.SliceOfN(rapid.IntRange(0, 15), 0, 600).Draw(rt, "sched")
		return p
	}
	switch mode {
	case "isolation":
		nOps := rapid.IntRange(2, 8).Draw(rt, "nOps")
		p.Sequential = rapid.IntRange(0, 5).Draw(rt, "sequential") == 0
		// message instances shared between calls: handlers that return a cached response,
		// callers that pass one request to several calls
		p.SharedMsgs = rapid.Bool().Draw(rt, "sharedMsgs")
		for i := 0; i < nOps; i++ {
			md := methods[rapid.IntRange(0, len(methods)-1).Draw(rt, fmt.Sprintf("op%d.rpc", i))]
			// headers: valid for all / one missing / one invalid
			hmode := rapid.IntRange(0, 5).Draw(rt, fmt.Sprintf("op%d.hmode", i))
			if i > 0 && rapid.IntRange(0, 3).Draw(rt, fmt.Sprintf("op%d.sibling", i)) == 0 {
				// the same route as an earlier call, both with a header problem of their own:
				// two rejections of one route in flight together
				prev := p.Ops[rapid.IntRange(0, i-1).Draw(rt, fmt.Sprintf("op%d.siblingOf", i))]
				for _, m := range methods {
					if m.Key == prev.RPC {
						md = m
					}
				}
				hmode = 4 + i%2
			}
			rpc := w.RPC(md.Key)
			op := &Op{ID: i, RPC: md.Key, Client: "go", Server: "go"}
			op.ClientIdx = rapid.IntRange(0, nClients-1).Draw(rt, fmt.Sprintf("op%d.client", i))
			op.Opts = append(op.Opts, Opt{Kind: "header", Key: "X-Marker", Value: fmt.Sprintf("op%d", i)})
			if hmode >= 4 && len(rpc.Headers) > 0 {
				op.Notes = append(op.Notes, "hdr=perturbed")
			}
			target := 0
			if len(rpc.Headers) > 1 {
				target = rapid.IntRange(0, len(rpc.Headers)-1).Draw(rt, fmt.Sprintf("op%d.htarget", i))
			}
			for hi, h := range rpc.Headers {
				v := ValidHeaderValue(h, i+hi)
				switch {
				case hmode == 4 && hi == target:
					continue // leave it to the client default (or missing)
				case hmode == 5 && hi == target:
					v = "\x01not valid"
				}
				kind := "header"
				if rapid.Bool().Draw(rt, fmt.Sprintf("op%d.h%d.helper", i, hi)) {
					kind = "helper"
				}
				op.Opts = append(op.Opts, Opt{Kind: kind, Key: h.Name, Value: v})
			}
			if rapid.IntRange(0, 3).Draw(rt, fmt.Sprintf("op%d.ct", i)) == 0 {
				op.Opts = append(op.Opts, Opt{Kind: "contentType", Value: rapid.SampledFrom([]string{"application/json", "application/x-protobuf"}).Draw(rt, fmt.Sprintf("op%d.ctv", i))})
			}
			req := drawReq(rt, w, md, fmt.Sprintf("op%d.req", i))
			op.ReqBin = mustMarshal(req)
			op.ReqJSON = jsonOf(req)
			if rapid.IntRange(0, 4).Draw(rt, fmt.Sprintf("op%d.fail", i)) == 0 {
				op.App = AppBehaviour{Kind: "err-plain", Text: fmt.Sprintf("failure of op %d", i)}
				if rapid.Bool().Draw(rt, fmt.Sprintf("op%d.sentinel", i)) {
					// a sentinel *sebufhttp.Error (one value for every failing call when instances are shared)
					op.App = AppBehaviour{Kind: "err-sebuf", Text: rapid.SampledFrom([]string{"not allowed", "quota exceeded"}).Draw(rt, fmt.Sprintf("op%d.sentinelText", i))}
				}
			} else {
				resp := NewFilled(rt, md.NewResp, fmt.Sprintf("op%d.resp", i), nil)
				op.RespBin = mustMarshal(resp)
				op.App = AppBehaviour{Kind: "respond"}
			}
			if p.SharedMsgs && rapid.Bool().Draw(rt, fmt.Sprintf("op%d.sameAsEarlier", i)) {
				// same payloads as an earlier call of this RPC: the two calls share the instances
				for _, prev := range p.Ops {
					if prev.RPC == op.RPC {
						op.ReqBin, op.ReqJSON = prev.ReqBin, prev.ReqJSON
						if op.App.Kind == "respond" && prev.App.Kind == "respond" {
							op.RespBin = prev.RespBin
						}
						break
					}
				}
			}
			op.ReqChunks = drawChunks(rt, fmt.Sprintf("op%d.reqChunks", i))
			op.RespChunks = drawChunks(rt, fmt.Sprintf("op%d.respChunks", i))
			p.Ops = append(p.Ops, op)
		}
	case "history":
		var kvMethods []*MethodDesc
		for _, m := range methods {
			if _, ok := getFirstString(m.NewResp()); ok {
				kvMethods = append(kvMethods, m)
			}
		}
		if len(kvMethods) == 0 {
			return p
		}
		nOps := rapid.IntRange(2, 10).Draw(rt, "nOps")
		for i := 0; i < nOps; i++ {
			md := kvMethods[rapid.IntRange(0, len(kvMethods)-1).Draw(rt, fmt.Sprintf("op%d.rpc", i))]
			rpc := w.RPC(md.Key)
			op := &Op{ID: i, RPC: md.Key, Client: "go", Server: "go"}
			op.ClientIdx = rapid.IntRange(0, nClients-1).Draw(rt, fmt.Sprintf("op%d.client", i))
			for hi, h := range rpc.Headers {
				op.Opts = append(op.Opts, Opt{Kind: "header", Key: h.Name, Value: ValidHeaderValue(h, hi)})
			}
			req := drawValidReq(rt, w, md, fmt.Sprintf("op%d.req", i))
			op.ReqBin = mustMarshal(req)
			key := fmt.Sprintf("k%d", rapid.IntRange(0, 2).Draw(rt, fmt.Sprintf("op%d.key", i)))
			if rapid.Bool().Draw(rt, fmt.Sprintf("op%d.put", i)) {
				op.App = AppBehaviour{Kind: "kv-put", Custom: key, Text: fmt.Sprintf("v%d", i)}
			} else {
				op.App = AppBehaviour{Kind: "kv-get", Custom: key}
			}
			op.StartMs = rapid.SampledFrom([]int{0, 0, 0, 5, 20}).Draw(rt, fmt.Sprintf("op%d.start", i))
			op.ReqChunks = drawChunks(rt, fmt.Sprintf("op%d.reqChunks", i))
			p.Ops = append(p.Ops, op)
		}
	}
	if rapid.IntRange(0, 4).Draw(rt, "sched#on") != 0 {
		p.Schedule = rapid.SliceOfN(rapid.IntRange(0, 15), 0, 600).Draw(rt, "sched")
	}
	return p
}

// fillOnly sets just the fields named in opt.NonEmpty.
func fillOnly(rt *rapid.T, m proto.Message, opt *GenOpts, label string) {
	r := m.ProtoReflect()
	fds := r.Descriptor().Fields()
	for i := 0; i < fds.Len(); i++ {
		fd := fds.Get(i)
		if opt.NonEmpty[string(fd.Name())] && !fd.IsList() && !fd.IsMap() {
			v := genPathSafe(rt, fd, label+"."+string(fd.Name()))
			r.Set(fd, v)
			if !r.Has(fd) {
				r.Set(fd, nonZeroValue(fd))
			}
		}
	}
}

// observation is what a call looked like from outside.
type observation struct {
	Outcome string
	Wire    []string
	Seen    []string
}

func normErr(err error) string {
	var ve *sebufhttp.ValidationError
	if errors.As(err, &ve) {
		var vs []string
		for _, v := range ve.GetViolations() {
			vs = append(vs, v.GetField()+"="+v.GetDescription())
		}
		sort.Strings(vs)
		return "validation:" + strings.Join(vs, ";")
	}
	var e *sebufhttp.Error
	if errors.As(err, &e) {
		return "error:" + e.GetMessage()
	}
	return "other:" + err.Error()
}

func observe(c *CallState) observation {
	var o observation
	switch {
	case c.PanicVal != nil:
		o.Outcome = "panic"
	case !c.Returned:
		o.Outcome = "hung"
	case c.Err != nil:
		o.Outcome = normErr(c.Err)
	default:
		o.Outcome = "ok:" + msgHash(c.Resp) + ":" + jsonOf(c.Resp)
	}
	// what the server put on the wire besides the body: status and media type of the response
	if len(c.Conns) > 0 && len(c.Conns[0].s2c.sent) > 0 {
		if st, rh, _, err := parseResponse(c.Conns[0].s2c.sent, "POST"); err == nil {
			o.Outcome += fmt.Sprintf(" [status=%d content-type=%s]", st, ctFamily(rh.Get("Content-Type")))
		}
	}
	for _, w := range c.Wire {
		var hs []string
		for k, vs := range w.Header {
			if k == "Content-Length" || k == "User-Agent" || k == "Accept-Encoding" {
				continue
			}
			hs = append(hs, k+"="+strings.Join(vs, ","))
		}
		sort.Strings(hs)
		o.Wire = append(o.Wire, w.Verb+" "+w.Target+" "+strings.Join(hs, "&"))
	}
	for _, s := range c.Seen {
		o.Seen = append(o.Seen, s.RPC+":"+msgHash(s.Req))
	}
	return o
}

func (o observation) String() string {
	return fmt.Sprintf("outcome=%s wire=%v seen=%v", o.Outcome, o.Wire, o.Seen)
}

func (o observation) diff(p observation) string {
	switch {
	case o.Outcome != p.Outcome:
		return "outcome"
	case strings.Join(o.Wire, "\n") != strings.Join(p.Wire, "\n"):
		return "wire"
	case strings.Join(o.Seen, "\n") != strings.Join(p.Seen, "\n"):
		return "handler-input"
	}
	return ""
}

// soloT is the *testing.T used for solo re-executions (set by the runner).
var soloT *testing.T

func (propC17) Check(k *Kernel, cov *Coverage) *Violation {
	if k.Race != nil && len(k.Race.Reports) > 0 {
		r := k.Race.Reports[0]
		return &Violation{Class: "data-race", Signature: "C17|data-race|" + r.Kind + "|" + siteFile(r.First) + "|" + siteFile(r.Second),
			Detail: fmt.Sprintf("unordered conflicting accesses (%s) at %s and %s (no happens-before edge: request/response delivery, once completion, lock hand-off)", r.Kind, r.First, r.Second)}
	}
	if k.ServerPanics > 0 {
		d := ""
		for _, cn := range k.conns {
			if cn.Panic != "" {
				d = cn.Panic
				break
			}
		}
		return &Violation{Class: "server-panic", Signature: "C17|server-panic|" + panicSite(d), Detail: "server panicked under concurrency: " + d}
	}
	if k.Plan.Mode == "history" {
		return checkHistory(k, cov)
	}
	for _, c := range k.Calls {
		got := observe(c)
		// alone = this call, through its own client, in a process that built no other client
		so := cloneOp(c.Op)
		soloClients := k.Plan.Clients
		if so.ClientIdx >= 0 && so.ClientIdx < len(k.Plan.Clients) {
			soloClients = [][]Opt{k.Plan.Clients[so.ClientIdx]}
			so.ClientIdx = 0
		}
		solo := &Plan{Prop: k.Plan.Prop, World: k.Plan.World, Mode: k.Plan.Mode, Clients: soloClients, BaseSlash: k.Plan.BaseSlash,
			SharedHTTP: k.Plan.SharedHTTP, MountPrefix: k.Plan.MountPrefix, Ops: []*Op{so}}
		ks := RunPlan(soloT, k.W, solo, false)
		if len(ks.Panics) > 0 {
			continue
		}
		want := observe(ks.Calls[0])
		// State that outlives a server instance (package-level caches) poisons the solo run in
		// the same process too: a well-formed call must also succeed by the contract itself.
		if noteOf(c.Op, "hdr") == "" && c.Op.App.Kind == "respond" && ruleViolation(c.Req) == nil && missingRequiredQuery(k.W.RPC(c.Op.RPC), c.Req) == nil &&
			outcomeKind(got.Outcome) != "ok" {
			return &Violation{Class: "isolation", Signature: "C17|isolation|well-formed-call-rejected|" + outcomeKind(got.Outcome),
				Detail: fmt.Sprintf("op %d %s is a well-formed call (valid headers, request satisfies the declared rules) yet its outcome is %s (the same call alone in this process: %s)", c.Op.ID, c.Op.RPC, got.Outcome, want.Outcome)}
		}
		if d := got.diff(want); d != "" {
			return &Violation{Class: "isolation", Signature: "C17|isolation|" + d + "|" + outcomeKind(want.Outcome) + "->" + outcomeKind(got.Outcome),
				Detail: fmt.Sprintf("op %d %s differs (%s) from the same call executed alone:\n  with others: %s\n  alone:       %s", c.Op.ID, c.Op.RPC, d, got, want)}
		}
		cov.Tuple(k.W.Name, c.Op.RPC, outcomeKind(got.Outcome), fmt.Sprintf("n=%d", len(k.Calls)), fmt.Sprintf("seq=%v", k.Plan.Sequential))
	}
	if k.Race != nil {
		if k.Stats.Probes == nil {
			k.Stats.Probes = map[string]int{}
		}
		k.Stats.Probes["accesses_checked"] += k.Race.Accs
	}
	return nil
}

func outcomeKind(o string) string {
	if i := strings.Index(o, ":"); i >= 0 {
		return o[:i]
	}
	return o
}

func siteFile(s string) string {
	if i := strings.LastIndex(s, ":"); i >= 0 {
		s = s[:i]
	}
	// generated file names are <proto base>_<kind>.pb.go: keep the kind
	if i := strings.Index(s, "_"); i >= 0 {
		s = s[i+1:]
	}
	return s
}

func cloneOp(op *Op) *Op {
	b, _ := json.Marshal(op)
	o := &Op{}
	_ = json.Unmarshal(b, o)
	o.StartMs = 0
	return o
}

// ---------- history oracle (porcupine) ----------

type kvIn struct {
	Put bool
	Key string
	Val string
}

type kvOut struct {
	Val string
	Err bool
}

var kvModel = porcupine.Model{
	Partition: func(history []porcupine.Operation) [][]porcupine.Operation {
		m := map[string][]porcupine.Operation{}
		for _, op := range history {
			k := op.Input.(kvIn).Key
			m[k] = append(m[k], op)
		}
		var keys []string
		for k := range m {
			keys = append(keys, k)
		}
		sort.Strings(keys)
		var out [][]porcupine.Operation
		for _, k := range keys {
			out = append(out, m[k])
		}
		return out
	},
	Init: func() interface{} { return "" },
	Step: func(state, input, output interface{}) (bool, interface{}) {
		in, out := input.(kvIn), output.(kvOut)
		st := state.(string)
		if out.Err {
			// a failed call may or may not have taken effect
			return true, st
		}
		if in.Put {
			return out.Val == in.Val, in.Val
		}
		return out.Val == st, st
	},
	Equal: func(a, b interface{}) bool { return a == b },
}

func checkHistory(k *Kernel, cov *Coverage) *Violation {
	var ops []porcupine.Operation
	for _, c := range k.Calls {
		if c.Op.App.Kind != "kv-put" && c.Op.App.Kind != "kv-get" {
			continue
		}
		if !c.Returned {
			return &Violation{Class: "call-hung", Signature: "C17|history|call-hung", Detail: fmt.Sprintf("op %d never returned", c.Op.ID)}
		}
		in := kvIn{Put: c.Op.App.Kind == "kv-put", Key: c.Op.App.Custom, Val: c.Op.App.Text}
		out := kvOut{}
		if c.Err != nil {
			// whether a call may fail at all is C01's business; here a failed call simply
			// may or may not have taken effect
			out.Err = true
			k.Stats.Probe("history_call_failed")
		} else {
			out.Val, _ = getFirstString(c.Resp)
		}
		ops = append(ops, porcupine.Operation{ClientId: c.Op.ClientIdx*100 + c.Idx, Input: in, Call: int64(c.StartSeq), Output: out, Return: int64(c.RetSeq)})
	}
	if len(ops) == 0 {
		cov.Tuple(k.W.Name, "history", "no-kv-methods")
		return nil
	}
	res := porcupine.CheckOperationsTimeout(kvModel, ops, 30*time.Second)
	switch res {
	case porcupine.Illegal:
		var lines []string
		for _, o := range ops {
			lines = append(lines, fmt.Sprintf("[%d,%d] %+v -> %+v", o.Call, o.Return, o.Input, o.Output))
		}
		return &Violation{Class: "not-linearizable", Signature: "C17|history|not-linearizable",
			Detail: "client-visible history is not linearizable against a register-per-key model:\n  " + strings.Join(lines, "\n  ")}
	case porcupine.Unknown:
		k.Stats.Probe("porcupine_unknown")
	default:
		cov.Tuple(k.W.Name, "history", fmt.Sprintf("ops=%d", len(ops)), "linearizable")
	}
	return nil
}
