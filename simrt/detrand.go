package simrt

import (
	"hash/fnv"
	_ "unsafe" // go:linkname

	_ "google.golang.org/protobuf/proto"
)

// google.golang.org/protobuf deliberately varies its output with a hash of the program
// binary (a space after ':' / ',' in protojson output, a non-breaking space in the "proto:"
// error prefix, the start of Range iteration). The runner binary differs between a check
// (batch of worlds) and a replay (one world), so a replayed plan would see other response
// bytes and lengths than the recorded run. The two variables below are that source of
// nondeterminism; the simulator pins them to a function of the world name, which makes a
// run a function of (world, plan) again while different worlds still see both variants.

//go:linkname detrandSeed google.golang.org/protobuf/internal/detrand.randSeed
var detrandSeed uint64

//go:linkname protoErrPrefix google.golang.org/protobuf/internal/errors.prefix
var protoErrPrefix string

func pinProtoRand(world string) {
	h := fnv.New64a()
	h.Write([]byte(world))
	s := h.Sum64()
	detrandSeed = s
	if s%2 == 1 {
		protoErrPrefix = "proto: "
	} else {
		protoErrPrefix = "proto: "
	}
}
