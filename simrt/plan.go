package simrt

import (
	"encoding/json"
	"os"
)

// Plan is everything the kernel consumes in one run. It is drawn (by rapid, before the
// bubble is entered) or loaded from a replay file; the kernel itself never draws.
type Plan struct {
	Prop  string `json:"prop"`
	World string `json:"world"`
	Mode  string `json:"mode,omitempty"`

	// Client construction (Go clients). Clients[i] lists the options of client i;
	// ops refer to a client by index. SharedHTTP: all clients share one *http.Client.
	Clients    [][]Opt `json:"clients,omitempty"`
	BaseSlash  bool    `json:"base_slash,omitempty"`
	// MountPrefix: the servers sit behind a gateway that serves them under this path prefix and
	// strips it (http.StripPrefix, an ingress rule); clients are given a base URL that carries it
	MountPrefix string `json:"mount_prefix,omitempty"`
	SharedHTTP bool    `json:"shared_http,omitempty"`
	// TimeoutMs is http.Client.Timeout (0 = none).
	TimeoutMs int `json:"timeout_ms,omitempty"`

	Hook *HookPlan `json:"hook,omitempty"`

	Ops      []*Op `json:"ops"`
	Schedule []int `json:"schedule,omitempty"`

	// Sequential: ops are started one after the other (op i+1 after op i returned).
	Sequential bool `json:"sequential,omitempty"`
	// Race enables the happens-before detector (worlds built with the yield pass).
	Race bool `json:"race,omitempty"`
	// SlowWrites: the server's ResponseWriter yields before consuming each Write.
	SlowWrites bool `json:"slow_writes,omitempty"`
	// SharedMsgs: calls of the same RPC whose plan payloads are equal share one message
	// instance: handlers return one cached response pointer, callers pass one request
	// pointer (messages are only read by the generated code, so sharing them is legal).
	SharedMsgs bool `json:"shared_msgs,omitempty"`
	// ServerDeadlineMs: the Go server sits behind a deadline middleware (context.WithTimeout
	// on the request context), as production servers commonly do.
	ServerDeadlineMs int `json:"server_deadline_ms,omitempty"`

	// Mock seam (C20): results of the generated mock's rand.Intn calls; crypto/rand failure.
	MockInts       []int `json:"mock_ints,omitempty"`
	MockCryptoFail bool  `json:"mock_crypto_fail,omitempty"`
	// FreshMock: every mock request constructs its own NewMock<Svc>Server() inside its handler task
	FreshMock bool `json:"fresh_mock,omitempty"`
}

// HookPlan scripts the server's error hook.
type HookPlan struct {
	Present   bool      `json:"present,omitempty"`
	ReturnMsg string    `json:"return_msg,omitempty"` // "", "error" (sebuf Error with text), "validation", "custom"
	MsgText   string    `json:"msg_text,omitempty"`
	Status    int       `json:"status,omitempty"`  // WriteHeader(status) when > 0
	Headers   [][2]string `json:"headers,omitempty"` // set on w.Header()
	WriteBody string    `json:"write_body,omitempty"` // written with w.Write when non-empty
	WriteVia  string    `json:"write_via,omitempty"`  // "" = w.Write, "string" = io.WriteString, "copy" = io.Copy from a strings.Reader
	// StatusOnlyFor: when set, the hook calls WriteHeader(Status) only for errors of these
	// sources (op note source=...), e.g. a hook that answers 404 for NotFoundError only.
	StatusOnlyFor []string `json:"status_only_for,omitempty"`
	// Services: when set, only these services are registered with the hook; the others
	// are registered without an error handler (two registrations with different options
	// in one process).
	Services []string `json:"services,omitempty"`
}

// AppliesTo reports whether the hook is installed on service svc.
func (h *HookPlan) AppliesTo(svc string) bool {
	if h == nil || !h.Present {
		return false
	}
	if len(h.Services) == 0 {
		return true
	}
	for _, s := range h.Services {
		if s == svc {
			return true
		}
	}
	return false
}

type AppBehaviour struct {
	// Kind: respond | err-plain | err-sebuf | err-validation | err-custom | err-wrapped-custom | mock | kv-put | kv-get
	Kind    string `json:"kind"`
	Text    string `json:"text,omitempty"`
	Custom  string `json:"custom,omitempty"`   // custom error type name
	Bin     []byte `json:"bin,omitempty"`      // payload (custom error message binary)
	Fields  []string `json:"fields,omitempty"` // validation error field names
	DelayMs int    `json:"delay_ms,omitempty"` // virtual sleep inside the handler
}

type RawReq struct {
	Verb    string      `json:"verb"`
	Target  string      `json:"target"` // request-target (path?query), already escaped
	Headers [][2]string `json:"headers,omitempty"`
	Body    []byte      `json:"body,omitempty"`
	NoBody  bool        `json:"no_body,omitempty"` // no Content-Length, no body at all
	Chunked bool        `json:"chunked,omitempty"`
}

type RogueResp struct {
	Status  int         `json:"status"`
	Headers [][2]string `json:"headers,omitempty"`
	Body    []byte      `json:"body,omitempty"`
	// RawBytes, when set, replaces the whole response on the wire.
	RawBytes []byte `json:"raw_bytes,omitempty"`
	// BadLength: advertise Content-Length = len(Body)+BadLength.
	BadLength int `json:"bad_length,omitempty"`
}

type Fault struct {
	// Kind: truncate | reset | stall | drop | dup | write-error | cancel
	Kind string `json:"kind"`
	Dir  string `json:"dir,omitempty"` // req | resp
	// At is the byte offset inside the body at which the fault fires (clamped to the
	// body length); InHead places it inside the header block instead.
	At     int  `json:"at,omitempty"`
	InHead bool `json:"in_head,omitempty"`
	AtMs   int  `json:"at_ms,omitempty"` // cancel: virtual time after op start
}

type Op struct {
	ID     int    `json:"id"`
	RPC    string `json:"rpc"`
	Client string `json:"client"` // go | raw | ts
	Server string `json:"server"` // go | rogue | ts
	// ClientIdx selects Plan.Clients[ClientIdx].
	ClientIdx int   `json:"client_idx,omitempty"`
	Opts      []Opt `json:"opts,omitempty"`

	ReqBin  []byte `json:"req_bin,omitempty"`
	RespBin []byte `json:"resp_bin,omitempty"`
	// Human-readable renderings, informational only (never parsed on replay).
	ReqJSON  string `json:"req_json,omitempty"`
	RespJSON string `json:"resp_json,omitempty"`

	App   AppBehaviour `json:"app"`
	Raw   *RawReq      `json:"raw,omitempty"`
	Rogue *RogueResp   `json:"rogue,omitempty"`

	ReqChunks  []int `json:"req_chunks,omitempty"`
	RespChunks []int `json:"resp_chunks,omitempty"`
	DelaysMs   []int `json:"delays_ms,omitempty"`
	StartMs    int   `json:"start_ms,omitempty"`

	// Notes carry what the drawn case is about (read by the oracle; self-contained replays).
	Notes []string `json:"notes,omitempty"`

	Faults     []Fault `json:"faults,omitempty"`
	DeadlineMs int     `json:"deadline_ms,omitempty"` // context deadline of the call
}

// Replay is the replay-file format.
type Replay struct {
	Property  string          `json:"property"`
	Seed      int64           `json:"seed"`
	RepoTree  string          `json:"repo_tree,omitempty"`
	Spec      json.RawMessage `json:"spec"` // spec.World
	Plan      *Plan           `json:"plan,omitempty"`
	Class     string          `json:"class"`
	Signature string          `json:"signature,omitempty"`
	Detail    string          `json:"detail,omitempty"`
	LogHash   string          `json:"log_hash,omitempty"`
	Boot      string          `json:"boot,omitempty"` // boot-admission diagnostic, when the world did not build/load
	// C15 generation-determinism replays
	Gen json.RawMessage `json:"gen,omitempty"`
}

func LoadPlan(path string) (*Plan, error) {
	b, err := os.ReadFile(path)
	if err != nil {
		return nil, err
	}
	// accept either a bare plan or a replay file
	var r Replay
	if err := json.Unmarshal(b, &r); err == nil && r.Plan != nil {
		return r.Plan, nil
	}
	p := &Plan{}
	if err := json.Unmarshal(b, p); err != nil {
		return nil, err
	}
	return p, nil
}
