package simrt

import (
	"encoding/json"
	"fmt"
	"net/url"
	"os"
	"path/filepath"
	"sort"
	"strings"

	"google.golang.org/protobuf/proto"
	"google.golang.org/protobuf/reflect/protoreflect"
	"pgregory.net/rapid"
	"sigs.k8s.io/yaml"

	"verif/simrt/spec"
)

// C03: all generators agree on each RPC's verb, path and parameter placement.
type propC03 struct{}

func init() { RegisterProperty(propC03{}) }

func (propC03) ID() string      { return "C03" }
func (propC03) Modes() []string { return []string{"matrix", "link-faults"} }

// ---------- the OpenAPI document as a third party sees it ----------

type oaParam struct {
	Name     string `json:"name"`
	In       string `json:"in"`
	Required bool   `json:"required"`
	Schema   struct {
		Type   string `json:"type"`
		Format string `json:"format"`
	} `json:"schema"`
}

type oaOperation struct {
	Service     string
	Verb        string
	Path        string
	OperationID string
	Params      []oaParam
	HasBody     bool
}

type oaDoc struct {
	Service string
	Ops     []*oaOperation
	Err     string
}

var oaCache = map[string][]*oaDoc{}

// loadOpenAPI parses every emitted *.openapi.yaml of the world.
func loadOpenAPI(w *WorldDesc) []*oaDoc {
	if d, ok := oaCache[w.Name]; ok {
		return d
	}
	dir := filepath.Join(os.Getenv("VERIF_WORLD_DIR"), "ts")
	files, _ := filepath.Glob(filepath.Join(dir, "*.openapi.yaml"))
	sort.Strings(files)
	var docs []*oaDoc
	for _, f := range files {
		base := filepath.Base(f)
		svc := strings.TrimSuffix(base, ".openapi.yaml")
		if i := strings.LastIndex(svc, "__"); i >= 0 {
			svc = svc[i+2:]
		}
		d := &oaDoc{Service: svc}
		docs = append(docs, d)
		raw, err := os.ReadFile(f)
		if err != nil {
			d.Err = err.Error()
			continue
		}
		js, err := yaml.YAMLToJSON(raw)
		if err != nil {
			d.Err = "yaml: " + err.Error()
			continue
		}
		var doc struct {
			Paths map[string]map[string]json.RawMessage `json:"paths"`
		}
		if err := json.Unmarshal(js, &doc); err != nil {
			d.Err = "json: " + err.Error()
			continue
		}
		var paths []string
		for p := range doc.Paths {
			paths = append(paths, p)
		}
		sort.Strings(paths)
		for _, p := range paths {
			var verbs []string
			for v := range doc.Paths[p] {
				verbs = append(verbs, v)
			}
			sort.Strings(verbs)
			for _, v := range verbs {
				switch v {
				case "get", "post", "put", "delete", "patch", "head", "options":
				default:
					continue
				}
				var op struct {
					OperationID string          `json:"operationId"`
					Parameters  []oaParam       `json:"parameters"`
					RequestBody json.RawMessage `json:"requestBody"`
				}
				if err := json.Unmarshal(doc.Paths[p][v], &op); err != nil {
					d.Err = "operation: " + err.Error()
					continue
				}
				d.Ops = append(d.Ops, &oaOperation{Service: svc, Verb: strings.ToUpper(v), Path: p, OperationID: op.OperationID, Params: op.Parameters,
					HasBody: len(op.RequestBody) > 0 && string(op.RequestBody) != "null"})
			}
		}
	}
	oaCache[w.Name] = docs
	return docs
}

func findOperation(docs []*oaDoc, service, method string) []*oaOperation {
	var out []*oaOperation
	for _, d := range docs {
		if d.Service != service {
			continue
		}
		for _, o := range d.Ops {
			if o.OperationID == method {
				out = append(out, o)
			}
		}
	}
	return out
}

// openAPIRequest builds the request a client generated from the document alone
// would send: verb and template from the operation, `in: path` / `in: query`
// parameters by name, the remaining fields as the JSON body when a requestBody is declared.
func openAPIRequest(rpc *spec.RPC, op *oaOperation, req proto.Message, hdrs [][2]string) *RawReq {
	m := req.ProtoReflect()
	fds := m.Descriptor().Fields()
	path := op.Path
	urlBound := map[string]bool{}
	q := url.Values{}
	var qnames []string
	for _, p := range op.Params {
		switch p.In {
		case "path":
			fd := fds.ByName(protoreflect.Name(p.Name))
			val := ""
			if fd != nil {
				val = ScalarString(fd, m.Get(fd))
				urlBound[p.Name] = true
			}
			path = strings.Replace(path, "{"+p.Name+"}", url.PathEscape(val), 1)
		case "query":
			// the parameter name is the wire name; the contract says which field it carries
			field := p.Name
			for _, cq := range rpc.Query {
				if cq.Name == p.Name {
					field = cq.Field
				}
			}
			fd := fds.ByName(protoreflect.Name(field))
			if fd == nil {
				continue
			}
			urlBound[field] = true
			if fd.IsList() {
				// repeated field: one name=value pair per element (OpenAPI default for arrays,
				// style=form explode=true). The document's item type is not C03's subject
				// (placement is), so the elements are sent whatever type it declares.
				l := m.Get(fd).List()
				for i := 0; i < l.Len(); i++ {
					q.Add(p.Name, ScalarString(fd, l.Get(i)))
				}
				if l.Len() > 0 {
					qnames = append(qnames, p.Name)
				}
				continue
			}
			if m.Has(fd) || p.Required {
				q.Set(p.Name, ScalarString(fd, m.Get(fd)))
				qnames = append(qnames, p.Name)
			}
		}
	}
	if len(q) > 0 {
		sort.Strings(qnames)
		var parts []string
		for _, n := range qnames {
			for _, v := range q[n] {
				parts = append(parts, url.QueryEscape(n)+"="+url.QueryEscape(v))
			}
		}
		path += "?" + strings.Join(parts, "&")
	}
	r := &RawReq{Verb: op.Verb, Target: path, Headers: append([][2]string{{"Content-Type", "application/json"}}, hdrs...)}
	if op.HasBody {
		b := proto.Clone(req)
		bm := b.ProtoReflect()
		for i := 0; i < fds.Len(); i++ {
			if urlBound[string(fds.Get(i).Name())] {
				bm.Clear(fds.Get(i))
			}
		}
		r.Body, _ = EncodeBody(b, "json")
	} else {
		r.NoBody = true
	}
	return r
}

func (propC03) Draw(rt *rapid.T, w *WorldDesc, mode string) *Plan {
	p := &Plan{}
	methods := w.AllMethods()
	if mode == "link-faults" {
		// The request line a client emits is the RPC's request line on EVERY attempt: the first
		// attempt of a call meets a transport failure (connection reset before or while the
		// response arrives, no HTTP status), and whatever else the client then sends for this
		// call - a retry, a fallback - must carry the same verb, path and query as the first.
		nOps := rapid.IntRange(1, 3).Draw(rt, "nOps")
		for i := 0; i < nOps; i++ {
			l := fmt.Sprintf("op%d", i)
			md := methods[rapid.IntRange(0, len(methods)-1).Draw(rt, l+".rpc")]
			rpc := w.RPC(md.Key)
			req := drawValidReq(rt, w, md, l+".req")
			resp := NewFilled(rt, md.NewResp, l+".resp", nil)
			scrubNonFinite(req.ProtoReflect(), 0)
			scrubNonFinite(resp.ProtoReflect(), 0)
			op := &Op{ID: i, RPC: md.Key, Client: rapid.SampledFrom([]string{"ts", "ts", "go"}).Draw(rt, l+".client"), Server: rapid.SampledFrom([]string{"go", "ts"}).Draw(rt, l+".server"),
				App: AppBehaviour{Kind: "respond"}}
			for _, h := range ValidHeaders(rpc, 0) {
				op.Opts = append(op.Opts, Opt{Kind: "header", Key: h[0], Value: h[1]})
			}
			op.ReqBin, op.RespBin = mustMarshal(req), mustMarshal(resp)
			op.ReqJSON, op.RespJSON = jsonOf(req), jsonOf(resp)
			kind := rapid.SampledFrom([]string{"reset", "truncate"}).Draw(rt, l+".fault")
			op.Faults = []Fault{{Kind: kind, Dir: "resp", At: rapid.IntRange(0, 30).Draw(rt, l+".at"), InHead: rapid.Bool().Draw(rt, l+".inhead")}}
			op.DeadlineMs = 60000
			p.Ops = append(p.Ops, op)
		}
		p.Schedule = drawSchedule(rt, 32)
		return p
	}
	md := methods[rapid.IntRange(0, len(methods)-1).Draw(rt, "rpc")]
	rpc := w.RPC(md.Key)
	req := drawValidReq(rt, w, md, "req")
	resp := NewFilled(rt, md.NewResp, "resp", nil)
	scrubNonFinite(req.ProtoReflect(), 0)
	scrubNonFinite(resp.ProtoReflect(), 0)
	hdrs := ValidHeaders(rpc, rapid.IntRange(0, 3).Draw(rt, "hdrVariant"))
	var opts []Opt
	for _, h := range hdrs {
		opts = append(opts, Opt{Kind: "header", Key: h[0], Value: h[1]})
	}
	id := 0
	docs := loadOpenAPI(w)
	ops := findOperation(docs, rpc.Service, rpc.Method)
	for _, client := range []string{"go", "ts", "openapi"} {
		for _, server := range []string{"go", "ts"} {
			op := &Op{ID: id, RPC: md.Key, Client: client, Server: server, App: AppBehaviour{Kind: "respond"}, Opts: opts}
			op.ReqBin, op.RespBin = mustMarshal(req), mustMarshal(resp)
			op.ReqJSON = jsonOf(req)
			if client == "openapi" {
				if len(ops) != 1 {
					continue // reported by the document check
				}
				op.Client = "raw"
				op.Raw = openAPIRequest(rpc, ops[0], req, hdrs)
				op.Notes = append(op.Notes, "client=openapi")
			}
			op.ReqChunks = drawChunks(rt, fmt.Sprintf("op%d.reqChunks", id))
			op.DeadlineMs = 3600000 // virtual time is free: a slowly delivered request must not run into the caller's own deadline
			p.Ops = append(p.Ops, op)
			id++
		}
	}
	// a second request with other values, in flight together with the matrix calls on each
	// server: "which fields travel in the path" holds per request, whatever else is being served
	if rapid.Bool().Draw(rt, "second") {
		req2 := drawValidReq(rt, w, md, "req2")
		scrubNonFinite(req2.ProtoReflect(), 0)
		for _, server := range []string{"go", "ts"} {
			op := &Op{ID: id, RPC: md.Key, Client: "go", Server: server, App: AppBehaviour{Kind: "respond"}, Opts: opts, Notes: []string{"second=1"}}
			op.ReqBin, op.RespBin = mustMarshal(req2), mustMarshal(resp)
			op.ReqJSON = jsonOf(req2)
			op.ReqChunks = drawChunks(rt, fmt.Sprintf("op%d.reqChunks", id))
			op.DeadlineMs = 3600000 // virtual time is free: a slowly delivered request must not run into the caller's own deadline
			p.Ops = append(p.Ops, op)
			id++
		}
	}
	// URL vs body: a raw request whose body ALSO mentions the path-bound fields, with other
	// values. Which value the handler sees is part of "where the field travels": both servers
	// must take it from the same place.
	if rpc.HasBody && rpc.PathKnown && len(rpc.PathVars) > 0 {
		alt := drawValidReq(rt, w, md, "alt")
		scrubNonFinite(alt.ProtoReflect(), 0)
		if target, err := BuildTarget(rpc, req, false); err == nil {
			bm := proto.Clone(alt)
			r := bm.ProtoReflect()
			for _, q := range rpc.Query {
				if fd := r.Descriptor().Fields().ByName(protoreflect.Name(q.Field)); fd != nil {
					r.Clear(fd)
				}
			}
			body, _ := EncodeBody(bm, "json")
			for _, server := range []string{"go", "ts"} {
				op := &Op{ID: id, RPC: md.Key, Client: "raw", Server: server, App: AppBehaviour{Kind: "respond"}, Notes: []string{"conflict=1"}}
				op.Raw = &RawReq{Verb: rpc.Verb, Target: target, Headers: append([][2]string{{"Content-Type", "application/json"}}, hdrs...), Body: body}
				op.ReqBin, op.RespBin = mustMarshal(req), mustMarshal(resp)
				op.DeadlineMs = 3600000 // virtual time is free: a slowly delivered request must not run into the caller's own deadline
				p.Ops = append(p.Ops, op)
				id++
			}
		}
	}
	p.Sequential = rapid.Bool().Draw(rt, "sequential")
	p.Schedule = drawSchedule(rt, 64)
	return p
}

func pathCfg(w *WorldDesc, rpc *spec.RPC) string {
	ms := methodSpec(w, rpc)
	switch {
	case ms == nil:
		return "?"
	case !ms.HasConfig:
		return "noconfig"
	case ms.Path == "":
		return "verbonly"
	case !strings.HasPrefix(ms.Path, "/"):
		return "explicit-noslash"
	}
	return "explicit"
}

// wireShape is the request line as the property compares it: verb, decoded path
// segments, set of query parameter names.
func wireShape(wr WireReq, tmpl string) string {
	u, err := url.ParseRequestURI(wr.Target)
	if err != nil {
		return wr.Verb + " <unparsable " + wr.Target + ">"
	}
	// path variables carry values whose decimal spelling may legitimately differ between
	// languages (1e+06 vs 1000000): compare the template positions, not the values
	ts, ps := strings.Split(tmpl, "/"), strings.Split(u.EscapedPath(), "/")
	if len(ts) == len(ps) {
		for i := range ts {
			if strings.HasPrefix(ts[i], "{") && strings.HasSuffix(ts[i], "}") && ps[i] != "" {
				ps[i] = "{}"
			}
		}
		return wr.Verb + " " + strings.Join(ps, "/") + " ?" + queryNames(u)
	}
	return wr.Verb + " " + u.EscapedPath() + " ?" + queryNames(u)
}

func queryNames(u *url.URL) string {
	var names []string
	for n := range u.Query() {
		names = append(names, n)
	}
	sort.Strings(names)
	return strings.Join(names, ",")
}

func templateMatches(tmpl, path string) bool {
	ts, ps := strings.Split(tmpl, "/"), strings.Split(path, "/")
	if len(ts) != len(ps) {
		return false
	}
	for i := range ts {
		if strings.HasPrefix(ts[i], "{") && strings.HasSuffix(ts[i], "}") {
			if ps[i] == "" {
				return false
			}
			continue
		}
		if ts[i] != ps[i] {
			return false
		}
	}
	return true
}

func clientKind(c *CallState) string {
	if noteOf(c.Op, "client") == "openapi" {
		return "openapi"
	}
	return c.Op.Client
}

func (propC03) Check(k *Kernel, cov *Coverage) *Violation {
	if k.Plan.Mode == "link-faults" {
		return checkC03Attempts(k, cov)
	}
	if len(k.Calls) == 0 {
		return nil
	}
	rpc := k.W.RPC(k.Calls[0].Op.RPC)
	cfg := pathCfg(k.W, rpc) + "|base=" + baseKind(k.W, rpc)
	docs := loadOpenAPI(k.W)
	// (a) read from the document: exactly one operation per RPC, one document per service
	for _, d := range docs {
		if d.Err != "" {
			return &Violation{Class: "openapi-unreadable", Signature: "C03|openapi-unreadable", Detail: d.Service + ": " + d.Err}
		}
	}
	ops := findOperation(docs, rpc.Service, rpc.Method)
	if len(ops) != 1 {
		return &Violation{Class: "operation-count", Signature: fmt.Sprintf("C03|operation-count|n=%d|%s", len(ops), cfg),
			Detail: fmt.Sprintf("RPC %s appears as %d operations in the OpenAPI document of service %s (documents: %d)", rpc.Key, len(ops), rpc.Service, len(docs))}
	}
	op := ops[0]
	nRPC := 0
	for _, r := range spec.Contract(k.W.Spec()) {
		if r.Service == rpc.Service {
			nRPC++
		}
	}
	for _, d := range docs {
		if d.Service == rpc.Service && len(d.Ops) != nRPC {
			return &Violation{Class: "operation-count", Signature: fmt.Sprintf("C03|operation-total|%s", cfg),
				Detail: fmt.Sprintf("service %s has %d RPCs but its document has %d operations", rpc.Service, nRPC, len(d.Ops))}
		}
	}
	// (b) the TS server's published route
	if k.TS != nil {
		if tw := k.TS.loaded[k.W.Name]; tw != nil {
			n := 0
			for _, r := range tw.Routes[rpc.Service] {
				if r.Method == op.Verb && r.Path == op.Path {
					n++
				}
			}
			if n != 1 {
				return &Violation{Class: "ts-route-disagrees-with-openapi", Signature: "C03|ts-route-vs-openapi|" + cfg,
					Detail: fmt.Sprintf("RPC %s: OpenAPI says %s %s; TS server publishes %v", rpc.Key, op.Verb, op.Path, tw.Routes[rpc.Service])}
			}
		}
	}
	// (c) contract vs document (when the annotations give an explicit path)
	if rpc.PathKnown && (op.Verb != rpc.Verb || op.Path != rpc.Path) {
		return &Violation{Class: "openapi-disagrees-with-annotations", Signature: "C03|openapi-vs-annotations|" + cfg,
			Detail: fmt.Sprintf("RPC %s: annotations give %s %s, document gives %s %s", rpc.Key, rpc.Verb, rpc.Path, op.Verb, op.Path)}
	}
	// parameter placement in the document
	place := map[string]string{}
	for _, p := range op.Params {
		if p.In == "path" || p.In == "query" {
			place[p.In+":"+p.Name] = p.In
		}
	}
	for _, v := range rpc.PathVars {
		if place["path:"+v] == "" {
			return &Violation{Class: "openapi-parameter-placement", Signature: "C03|openapi-placement|path|" + cfg, Detail: fmt.Sprintf("RPC %s: path variable %s is not an `in: path` parameter of the operation", rpc.Key, v)}
		}
	}
	for _, q := range rpc.Query {
		if place["query:"+q.Name] == "" {
			return &Violation{Class: "openapi-parameter-placement", Signature: "C03|openapi-placement|query|" + cfg, Detail: fmt.Sprintf("RPC %s: query parameter %s is not an `in: query` parameter of the operation", rpc.Key, q.Name)}
		}
	}
	if op.HasBody != rpc.HasBody {
		return &Violation{Class: "openapi-parameter-placement", Signature: "C03|openapi-placement|body|" + cfg, Detail: fmt.Sprintf("RPC %s: verb %s, document requestBody=%v", rpc.Key, rpc.Verb, op.HasBody)}
	}
	// (d) delivery matrix and wire agreement
	shapes := map[string]string{}
	stale := map[*CallState]bool{}
	var conflict []*CallState
	for _, c := range k.Calls {
		if noteOf(c.Op, "conflict") == "1" {
			conflict = append(conflict, c)
			continue
		}
		if noteOf(c.Op, "client") == "openapi" && c.Op.Raw != nil {
			// a replayed plan carries the request a reader built from the document of the tree it
			// was drawn on; if the current document yields another request line, the op says
			// nothing about the current tree (the fresh exploration draws it anew)
			cur := openAPIRequest(rpc, op, c.planReq(k), nil)
			if cur == nil || cur.Verb != c.Op.Raw.Verb || cur.Target != c.Op.Raw.Target {
				stale[c] = true
				continue
			}
		}
		ck := clientKind(c)
		pair := ck + ">" + c.Op.Server
		if len(c.Conns) > 0 && c.Conns[0].Panic != "" {
			return &Violation{Class: "server-panic", Signature: "C03|server-panic|" + pair, Detail: c.Conns[0].Panic}
		}
		if !c.Returned {
			return &Violation{Class: "call-hung", Signature: "C03|call-hung|" + pair, Detail: fmt.Sprintf("op %d never returned", c.Op.ID)}
		}
		if len(c.Wire) > 0 && noteOf(c.Op, "second") != "1" {
			s := wireShape(c.Wire[0], op.Path)
			if prev, ok := shapes[ck]; ok && prev != s {
				return &Violation{Class: "client-inconsistent", Signature: "C03|client-inconsistent|" + ck, Detail: prev + " vs " + s}
			}
			shapes[ck] = s
		}
		want := c.planReq(k)
		if ruleViolation(want) != nil || (c.Op.Server == "go" && missingRequiredQuery(rpc, want) != nil) {
			continue
		}
		failed := (c.Op.Raw == nil && c.Err != nil) || (c.Op.Raw != nil && (c.RespErr != nil || c.Status != 200))
		delivered := len(c.Seen) == 1 && c.Seen[0].RPC == c.Op.RPC && c.Seen[0].Req != nil && proto.Equal(c.Seen[0].Req, want)
		if failed || !delivered {
			st := c.Status
			if len(c.Conns) > 0 {
				st = c.Conns[len(c.Conns)-1].status
			}
			wire := ""
			if len(c.Wire) > 0 {
				wire = c.Wire[0].Verb + " " + c.Wire[0].Target
			}
			kind := "not-delivered"
			if st == 404 || st == 405 {
				kind = "not-routed"
			} else if len(c.Seen) == 1 && c.Seen[0].Req != nil && !proto.Equal(c.Seen[0].Req, want) {
				kind = "request-mismatch|" + placeOf(fieldShape(k.W, rpc, rpc.In, firstDiff(want, c.Seen[0].Req)))
			} else if len(c.Seen) == 1 && c.Seen[0].JSONErr != "" {
				kind = "ts-handler-input-not-contract-json|" + fieldShape(k.W, rpc, rpc.In, c.Seen[0].JSONErrField)
			} else if st == 400 && rpc.HasBody && requiredQueryPresent(rpc, want) {
				kind = "required-query-on-body-verb"
			}
			sg := "C03|matrix|" + pair + "|" + kind
			if kind == "not-routed" || kind == "not-delivered" {
				sg += "|" + cfg
			}
			return &Violation{Class: "matrix-delivery", Signature: sg,
				Detail: fmt.Sprintf("RPC %s via %s: wire %q, status %d, err=%v, handler saw %s, want %s", rpc.Key, pair, wire, st, c.Err, seenAll(c), jsonOf(want))}
		}
		cov.Tuple(k.W.Name, c.Op.RPC, pair, cfg, "delivered")
	}
	// the three clients emit the same request line, and it matches exactly one operation
	var kinds []string
	for ck := range shapes {
		kinds = append(kinds, ck)
	}
	sort.Strings(kinds)
	for i := 1; i < len(kinds); i++ {
		if shapes[kinds[i]] != shapes[kinds[0]] {
			return &Violation{Class: "clients-disagree", Signature: "C03|clients-disagree|" + kinds[0] + "-vs-" + kinds[i] + "|" + cfg,
				Detail: fmt.Sprintf("RPC %s: %s client emits %q, %s client emits %q", rpc.Key, kinds[0], shapes[kinds[0]], kinds[i], shapes[kinds[i]])}
		}
	}
	if len(conflict) == 2 && len(conflict[0].Seen) == 1 && len(conflict[1].Seen) == 1 && conflict[0].Seen[0].Req != nil && conflict[1].Seen[0].Req != nil {
		a, b := conflict[0].Seen[0].Req.ProtoReflect(), conflict[1].Seen[0].Req.ProtoReflect()
		for _, v := range rpc.PathVars {
			fd := a.Descriptor().Fields().ByName(protoreflect.Name(v))
			if fd == nil {
				continue
			}
			if !a.Get(fd).Equal(b.Get(fd)) {
				return &Violation{Class: "servers-disagree-url-vs-body", Signature: "C03|servers-disagree|url-vs-body|path",
					Detail: fmt.Sprintf("RPC %s, request %s %s with a body that also mentions path-bound field %q: the %s server hands the handler %v, the %s server %v", rpc.Key, conflict[0].Op.Raw.Verb, conflict[0].Op.Raw.Target, v, conflict[0].Op.Server, a.Get(fd), conflict[1].Op.Server, b.Get(fd))}
			}
		}
		cov.Tuple(k.W.Name, rpc.Key, "url-vs-body", "servers-agree")
	}
	for _, c := range k.Calls {
		if len(c.Wire) == 0 || noteOf(c.Op, "conflict") == "1" || stale[c] {
			continue
		}
		u, err := url.ParseRequestURI(c.Wire[0].Target)
		if err != nil {
			continue
		}
		n := 0
		for _, d := range docs {
			for _, o := range d.Ops {
				if o.Verb == c.Wire[0].Verb && templateMatches(o.Path, u.EscapedPath()) {
					n++
					if o.OperationID != rpc.Method && n == 1 {
						n = 100
					}
				}
			}
		}
		if n != 1 {
			return &Violation{Class: "request-line-not-in-openapi", Signature: "C03|request-line-vs-openapi|" + clientKind(c) + "|" + cfg,
				Detail: fmt.Sprintf("RPC %s: %s client emits %s %s which matches %d operations of the documents (want exactly the operation %s)", rpc.Key, clientKind(c), c.Wire[0].Verb, u.EscapedPath(), n%100, rpc.Method)}
		}
	}
	return nil
}

func requiredQueryPresent(rpc *spec.RPC, req proto.Message) bool {
	m := req.ProtoReflect()
	for _, q := range rpc.Query {
		if fd := m.Descriptor().Fields().ByName(protoreflect.Name(q.Field)); fd != nil && q.Required && m.Has(fd) {
			return true
		}
	}
	return false
}

// checkC03Attempts: every request a call put on the wire has the request line of the first.
func checkC03Attempts(k *Kernel, cov *Coverage) *Violation {
	for _, c := range k.Calls {
		pair := c.Op.Client + ">" + c.Op.Server
		// only a further request that follows a transport failure of the first attempt is judged:
		// a second request that follows a redirect (ServeMux path cleaning) is another matter
		redirected := false
		for _, cn := range c.Conns {
			if cn.status >= 300 && cn.status < 400 {
				redirected = true
			}
		}
		if len(c.Wire) < 2 || len(c.Conns) == 0 || len(c.Conns[0].faultFired) == 0 || redirected {
			cov.Tuple(k.W.Name, c.Op.RPC, pair, "link-fault", fmt.Sprintf("attempts=%d", len(c.Wire)))
			continue
		}
		first := c.Wire[0]
		for i, wr := range c.Wire[1:] {
			if wr.Verb != first.Verb || wr.Target != first.Target {
				what := "path"
				if wr.Verb != first.Verb {
					what = "verb"
				} else if strings.SplitN(wr.Target, "?", 2)[0] == strings.SplitN(first.Target, "?", 2)[0] {
					what = "query"
				}
				return &Violation{Class: "attempts-disagree", Signature: "C03|attempts-disagree|" + pair + "|" + what,
					Detail: fmt.Sprintf("op %d %s: after a transport failure the %s client sent attempt %d as %q, the first attempt was %q", c.Op.ID, c.Op.RPC, c.Op.Client, i+2, wr.Verb+" "+wr.Target, first.Verb+" "+first.Target)}
			}
		}
		cov.Tuple(k.W.Name, c.Op.RPC, pair, "link-fault", fmt.Sprintf("attempts=%d", len(c.Wire)), "same-request-line")
	}
	return nil
}
