package simrt

// RaceDetector is the simulator-level happens-before detector (C17); see race_impl.go.
type RaceDetector struct{}
