package simrt

import (
	"fmt"
	"reflect"
	"sort"
	"sync"
	"unsafe"
)

// Simulator-level happens-before race detector (C17). Go's own race detector is blind
// under baton passing (every hand-off is itself a happens-before edge), so accesses
// reported by the probes the "yield" source pass inserted are checked against vector
// clocks the kernel maintains per task. Happens-before edges: setup -> every task;
// request send -> server task of that connection; response send -> the reading client
// task; completion of a once body -> later callers; unlock -> next lock.

type vclock map[int]uint64

func (a vclock) join(b vclock) {
	for t, v := range b {
		if a[t] < v {
			a[t] = v
		}
	}
}

func (a vclock) clone() vclock {
	c := vclock{}
	for t, v := range a {
		c[t] = v
	}
	return c
}

type accRec struct {
	task int
	tick uint64
	site string
}

type shadow struct {
	pin       unsafe.Pointer // keeps the object alive so its address is not reused within the run
	lastWrite *accRec
	reads     map[int]*accRec
}

// RaceReport is one detected unordered conflicting access pair.
type RaceReport struct {
	Addr   uintptr
	First  string
	Second string
	Kind   string // write-write | read-write | write-read
}

type RaceDetector struct {
	clocks  map[int]vclock
	shadows map[uintptr]*shadow
	Reports []RaceReport
	seen    map[string]bool
	// sync objects
	onces map[uintptr]*simOnce
	pools map[uintptr][]pooled // simulator-owned free lists of seamed sync.Pools
	locks map[uintptr]*simLock
	Accs  int
}

type simOnce struct {
	state   int // 0 fresh, 1 running, 2 done
	waiters []*waiter
	clock   vclock
}

type simLock struct {
	held    bool
	readers int
	waiters []*waiter
	clock   vclock
}

func newRaceDetector() *RaceDetector {
	return &RaceDetector{clocks: map[int]vclock{}, shadows: map[uintptr]*shadow{}, seen: map[string]bool{},
		onces: map[uintptr]*simOnce{}, locks: map[uintptr]*simLock{}}
}

const setupTask = -1

func (r *RaceDetector) clockOf(t int) vclock {
	c := r.clocks[t]
	if c == nil {
		c = vclock{t: 1}
		r.clocks[t] = c
	}
	return c
}

func (r *RaceDetector) tick(t int) { r.clockOf(t)[t]++ }

// fork: child starts with parent's knowledge.
func (r *RaceDetector) fork(parent, child int) {
	pc := r.clockOf(parent)
	cc := r.clockOf(child)
	cc.join(pc)
	r.tick(parent)
}

func (r *RaceDetector) snapshot(t int) vclock {
	c := r.clockOf(t).clone()
	r.tick(t)
	return c
}

func (r *RaceDetector) acquire(t int, c vclock) {
	if c != nil {
		r.clockOf(t).join(c)
	}
}

func (r *RaceDetector) ordered(prev *accRec, t int) bool {
	if prev.task == t {
		return true
	}
	return prev.tick <= r.clockOf(t)[prev.task]
}

func (r *RaceDetector) report(addr uintptr, a, b *accRec, kind string, bsite string) {
	key := a.site + "|" + bsite + "|" + kind
	if r.seen[key] {
		return
	}
	r.seen[key] = true
	r.Reports = append(r.Reports, RaceReport{Addr: addr, First: a.site, Second: bsite, Kind: kind})
}

func (r *RaceDetector) access(t int, p unsafe.Pointer, write bool, site string) {
	addr := uintptr(p)
	r.Accs++
	if t == setupTask {
		return // setup happens-before every task
	}
	sh := r.shadows[addr]
	if sh == nil {
		sh = &shadow{reads: map[int]*accRec{}, pin: p}
		r.shadows[addr] = sh
	}
	c := r.clockOf(t)
	rec := &accRec{task: t, tick: c[t], site: site}
	if write {
		if sh.lastWrite != nil && !r.ordered(sh.lastWrite, t) {
			r.report(addr, sh.lastWrite, rec, "write-write", site)
		}
		for _, rd := range sh.reads {
			if !r.ordered(rd, t) {
				r.report(addr, rd, rec, "read-write", site)
			}
		}
		sh.lastWrite = rec
		sh.reads = map[int]*accRec{}
	} else {
		if sh.lastWrite != nil && !r.ordered(sh.lastWrite, t) {
			r.report(addr, sh.lastWrite, rec, "write-read", site)
		}
		sh.reads[t] = rec
	}
}

// ---------- entry points called by instrumented generated code ----------

// Current is the kernel of the run in progress (one run at a time per process).
var Current *Kernel

var accMu sync.Mutex

// Acc records an access to shared state and offers the scheduler a pre-emption point.
func Acc(site string, addr unsafe.Pointer, write bool) {
	k := Current
	if k == nil || k.Race == nil || k.closing {
		return
	}
	t := k.cur
	k.Race.access(t, addr, write, site)
	if t == setupTask {
		return
	}
	k.Stats.Probe("acc")
	k.Yield(k.curCall, "acc:"+site)
}

// MapID returns a stable identity for a map value (nil for nil maps).
func MapID(m any) unsafe.Pointer {
	v := reflect.ValueOf(m)
	if v.Kind() != reflect.Map || v.IsNil() {
		return nil
	}
	return v.UnsafePointer()
}

// AccMap is Acc on a map's identity.
func AccMap(site string, m any, write bool) {
	p := MapID(m)
	if p == nil {
		return
	}
	Acc(site, p, write)
}

// OnceDo replaces (*sync.Once).Do in instrumented code with a simulator-aware once:
// a second caller parks on a kernel waiter (durably blocked) instead of on the
// once's internal mutex.
func OnceDo(o *sync.Once, f func()) {
	k := Current
	if k == nil || k.Race == nil || k.closing || k.cur == setupTask {
		o.Do(f)
		return
	}
	r := k.Race
	so := r.onces[uintptr(unsafe.Pointer(o))]
	if so == nil {
		so = &simOnce{}
		r.onces[uintptr(unsafe.Pointer(o))] = so
	}
	t := k.cur
	call := k.curCall
	k.Yield(call, "once-enter")
	t = k.cur
	switch so.state {
	case 2:
		r.acquire(t, so.clock)
		return
	case 1:
		k.Stats.Probe("once_contended")
		w := &waiter{site: "once-wait", call: call, ch: make(chan struct{}), blocked: true, task: t}
		so.waiters = append(so.waiters, w)
		<-w.ch
		r.acquire(k.cur, so.clock)
		return
	}
	so.state = 1
	k.Event("once", "first task=%d", t)
	f()
	t = k.cur
	so.clock = r.snapshot(t)
	so.state = 2
	k.Event("once", "done task=%d", t)
	for _, w := range so.waiters {
		k.post(kmsg{kind: "park", w: w, ord: w.task})
	}
	so.waiters = nil
}

func lockOf(k *Kernel, p unsafe.Pointer) *simLock {
	l := k.Race.locks[uintptr(p)]
	if l == nil {
		l = &simLock{}
		k.Race.locks[uintptr(p)] = l
	}
	return l
}

// Lock / Unlock replace sync.Mutex / sync.RWMutex operations in instrumented code.
func Lock(p unsafe.Pointer, real sync.Locker) {
	k := Current
	if k == nil || k.Race == nil || k.closing || k.cur == setupTask {
		real.Lock()
		return
	}
	l := lockOf(k, p)
	call := k.curCall
	k.Yield(call, "lock")
	for l.held || l.readers > 0 {
		k.Stats.Probe("lock_contended")
		w := &waiter{site: "lock-wait", call: call, ch: make(chan struct{}), blocked: true, task: k.cur}
		l.waiters = append(l.waiters, w)
		<-w.ch
	}
	l.held = true
	k.Race.acquire(k.cur, l.clock)
}

func Unlock(p unsafe.Pointer, real sync.Locker) {
	k := Current
	if k == nil || k.Race == nil || k.closing || k.cur == setupTask {
		real.Unlock()
		return
	}
	l := lockOf(k, p)
	l.held = false
	l.clock = k.Race.snapshot(k.cur)
	ws := l.waiters
	l.waiters = nil
	for _, w := range ws {
		k.post(kmsg{kind: "park", w: w, ord: w.task})
	}
}

func RLock(p unsafe.Pointer, real *sync.RWMutex) {
	k := Current
	if k == nil || k.Race == nil || k.closing || k.cur == setupTask {
		real.RLock()
		return
	}
	l := lockOf(k, p)
	call := k.curCall
	k.Yield(call, "rlock")
	for l.held {
		w := &waiter{site: "rlock-wait", call: call, ch: make(chan struct{}), blocked: true, task: k.cur}
		l.waiters = append(l.waiters, w)
		<-w.ch
	}
	l.readers++
	k.Race.acquire(k.cur, l.clock)
}

func RUnlock(p unsafe.Pointer, real *sync.RWMutex) {
	k := Current
	if k == nil || k.Race == nil || k.closing || k.cur == setupTask {
		real.RUnlock()
		return
	}
	l := lockOf(k, p)
	l.readers--
	if l.clock == nil {
		l.clock = vclock{}
	}
	l.clock.join(k.Race.snapshot(k.cur))
	if l.readers == 0 {
		ws := l.waiters
		l.waiters = nil
		for _, w := range ws {
			k.post(kmsg{kind: "park", w: w, ord: w.task})
		}
	}
}

func (r RaceReport) String() string {
	return fmt.Sprintf("%s between %s and %s", r.Kind, r.First, r.Second)
}

// AccF is Acc with a lazily computed address: a nil base pointer (guarded by a
// short-circuit condition in the original statement) must not panic in the probe.
func AccF(site string, addr func() unsafe.Pointer, write bool) {
	if Current == nil || Current.Race == nil {
		return
	}
	var p unsafe.Pointer
	func() {
		defer func() { _ = recover() }()
		p = addr()
	}()
	if p == nil {
		return
	}
	Acc(site, p, write)
}

// PoolGet / PoolPut replace (*sync.Pool).Get / Put in instrumented code. A sync.Pool may
// hand any object that was Put to the next Get; the simulator's pool always hands back the
// most recently released one (what the real pool does on one P) and makes both operations
// pre-emption points, so "released, then still used" meets "taken and overwritten by another
// request" whenever the schedule allows it.
func PoolGet(p *sync.Pool) any {
	k := Current
	if k == nil || k.Race == nil || k.closing || k.cur == setupTask {
		return p.Get()
	}
	k.Yield(k.curCall, "pool-get")
	r := k.Race
	if r.pools == nil {
		r.pools = map[uintptr][]pooled{}
	}
	free := r.pools[uintptr(unsafe.Pointer(p))]
	if n := len(free); n > 0 {
		e := free[n-1]
		r.pools[uintptr(unsafe.Pointer(p))] = free[:n-1]
		k.Stats.Probe("pool_reuse")
		// everything the releasing task did to the object happens before its next owner's use
		r.acquire(k.cur, e.clock)
		return e.x
	}
	if p.New != nil {
		return p.New()
	}
	return nil
}

func PoolPut(p *sync.Pool, x any) {
	k := Current
	if k == nil || k.Race == nil || k.closing || k.cur == setupTask {
		p.Put(x)
		return
	}
	r := k.Race
	if r.pools == nil {
		r.pools = map[uintptr][]pooled{}
	}
	r.pools[uintptr(unsafe.Pointer(p))] = append(r.pools[uintptr(unsafe.Pointer(p))], pooled{x: x, clock: r.snapshot(k.cur)})
	k.Yield(k.curCall, "pool-put")
}

// Step is a plain pre-emption point (function entry in instrumented code).
func Step(site string) {
	k := Current
	if k == nil || k.Race == nil || k.closing || k.cur == setupTask {
		return
	}
	k.Stats.Probe("step")
	k.Yield(k.curCall, "step:"+site)
}

// pooled is an object parked in a seamed sync.Pool together with the releasing task's clock.
type pooled struct {
	x     any
	clock vclock
}

// MapKeys returns the keys of m in the order a range statement of instrumented code visits
// them: sorted by their printed form, then rotated by a value the plan determines. Go's own
// map iteration order is random per range statement; with pre-emption points inside loop
// bodies it would leak into the event order and break replay.
func MapKeys[K comparable, V any](m map[K]V) []K {
	keys := make([]K, 0, len(m))
	for k := range m {
		keys = append(keys, k)
	}
	sort.Slice(keys, func(i, j int) bool { return fmt.Sprint(keys[i]) < fmt.Sprint(keys[j]) })
	if k := Current; k != nil && len(keys) > 1 && k.Plan != nil {
		r := (len(k.Plan.Schedule) + len(k.Plan.Ops)) % len(keys)
		keys = append(keys[r:], keys[:r]...)
	}
	return keys
}
