package simrt

import (
	"fmt"
	"sort"
	"strings"

	"google.golang.org/protobuf/proto"
	"pgregory.net/rapid"

	"verif/simrt/spec"
)

// C09: requests are dispatched only when every required header is present and valid;
// the decision is taken before the body is read.
type propC09 struct{}

func init() { RegisterProperty(propC09{}) }

func (propC09) ID() string      { return "C09" }
func (propC09) Modes() []string { return []string{"headers", "openapi-headers"} }

// InvalidHeaderValue returns a value in the unambiguously-invalid column of the header
// table (DESIGN.md Appendix C.2); ok=false when the declared type has no such value
// other than absent / empty.
func InvalidHeaderValue(h *spec.Header, variant int) (string, bool) {
	pickv := func(xs ...string) string { return xs[variant%len(xs)] }
	switch h.Type {
	case "integer":
		return pickv("abc", "1.5", "1e3", "12a", "\xff12", "caf\xe9", "0x10", "1.0", "0b101"), true
	case "number":
		return pickv("abc", "--1", "1,5", "1.\xfe"), true
	case "boolean":
		return pickv("yes", "2", "maybe", "tru\xe9"), true
	case "array":
		return "", false
	}
	switch h.Format {
	case "uuid":
		return pickv("123e4567e89b12d3a456426614174000", "123e4567-e89b-12d3-a456-42661417400", "123e4567+e89b+12d3+a456+426614174000"), true
	case "email":
		return pickv("no-at-sign", "@domain.tld", "local@"), true
	case "date-time":
		return pickv("2024-01-15", "15/01/2024 10:00", "yesterday"), true
	case "date":
		return pickv("2024-13-01", "24-1-1", "2024/01/15"), true
	case "time":
		return pickv("25:00:00", "10:00", "noon"), true
	}
	return "", false
}

// header case notes stored in Op.App.Fields: "hdr:<lower name>=<absent|empty|valid|invalid>"

// drawOpenAPIHeaders: requests whose headers satisfy exactly what the OpenAPI document
// publishes for the operation (required parameters present with a value valid for the
// published type/format, parameters published as optional left out): such a request
// must never be rejected for its headers.
func drawOpenAPIHeaders(rt *rapid.T, w *WorldDesc) *Plan {
	p := &Plan{}
	docs := loadOpenAPI(w)
	var methods []*MethodDesc
	for _, m := range w.AllMethods() {
		r := w.RPC(m.Key)
		if r != nil && r.PathKnown && len(findOperation(docs, r.Service, r.Method)) == 1 {
			methods = append(methods, m)
		}
	}
	if len(methods) == 0 {
		return p
	}
	nOps := rapid.IntRange(1, 2).Draw(rt, "nOps")
	for i := 0; i < nOps; i++ {
		l := fmt.Sprintf("op%d", i)
		md := methods[rapid.IntRange(0, len(methods)-1).Draw(rt, l+".rpc")]
		rpc := w.RPC(md.Key)
		oop := findOperation(docs, rpc.Service, rpc.Method)[0]
		op := &Op{ID: i, RPC: md.Key, Client: "raw", Server: drawServer(rt, l+".server"), App: AppBehaviour{Kind: "respond"}}
		req := drawValidReq(rt, w, md, l+".req")
		if op.Server == "ts" {
			scrubNonFinite(req.ProtoReflect(), 0)
		}
		raw, err := ValidRaw(rpc, req, "application/json", nil)
		if err != nil {
			continue
		}
		for hi, prm := range oop.Params {
			if prm.In != "header" {
				continue
			}
			include := prm.Required || rapid.IntRange(0, 3).Draw(rt, fmt.Sprintf("%s.h%d.opt", l, hi)) == 0
			if !include {
				op.Notes = append(op.Notes, "oa:"+strings.ToLower(prm.Name)+"=omitted-optional")
				continue
			}
			v := ValidHeaderValue(&spec.Header{Name: prm.Name, Type: prm.Schema.Type, Format: prm.Schema.Format}, rapid.IntRange(0, 3).Draw(rt, fmt.Sprintf("%s.h%d.variant", l, hi)))
			raw.Headers = append(raw.Headers, [2]string{prm.Name, v})
			op.Notes = append(op.Notes, "oa:"+strings.ToLower(prm.Name)+"=valid")
		}
		op.Notes = append(op.Notes, "openapi=1")
		op.Raw = raw
		op.ReqBin = mustMarshal(req)
		op.RespBin = mustMarshal(md.NewResp())
		op.DeadlineMs = 600000
		p.Ops = append(p.Ops, op)
	}
	p.Schedule = drawSchedule(rt, 32)
	return p
}

func (propC09) Draw(rt *rapid.T, w *WorldDesc, mode string) *Plan {
	if mode == "openapi-headers" {
		return drawOpenAPIHeaders(rt, w)
	}
	p := &Plan{}
	if rapid.IntRange(0, 5).Draw(rt, "ctxDone") == 0 {
		p.ServerDeadlineMs = -1 // the Go server sees requests whose context is already done
	}
	var methods []*MethodDesc
	for _, m := range w.AllMethods() {
		if r := w.RPC(m.Key); r != nil && r.PathKnown {
			methods = append(methods, m)
		}
	}
	if len(methods) == 0 {
		return p
	}
	// prefer RPCs that declare headers
	var withHdr []*MethodDesc
	for _, m := range methods {
		if len(w.RPC(m.Key).Headers) > 0 {
			withHdr = append(withHdr, m)
		}
	}
	nOps := rapid.IntRange(1, 2).Draw(rt, "nOps")
	for i := 0; i < nOps; i++ {
		l := fmt.Sprintf("op%d", i)
		pool := methods
		if len(withHdr) > 0 && rapid.IntRange(0, 5).Draw(rt, l+".any") != 0 {
			pool = withHdr
		}
		md := pool[rapid.IntRange(0, len(pool)-1).Draw(rt, l+".rpc")]
		rpc := w.RPC(md.Key)
		op := &Op{ID: i, RPC: md.Key, Client: "raw", Server: drawServer(rt, l+".server"), App: AppBehaviour{Kind: "respond"}}
		req := drawValidReq(rt, w, md, l+".req")
		ct := rapid.SampledFrom([]string{"application/json", "application/x-protobuf"}).Draw(rt, l+".ct")
		if op.Server == "ts" {
			ct = "application/json"
			scrubNonFinite(req.ProtoReflect(), 0)
		}
		raw, err := ValidRaw(rpc, req, ct, nil)
		if err != nil {
			continue
		}
		allValid := rapid.IntRange(0, 2).Draw(rt, l+".allvalid") == 0
		for hi, h := range rpc.Headers {
			hl := fmt.Sprintf("%s.h%d", l, hi)
			state := "valid"
			if !allValid {
				if h.Required {
					state = rapid.SampledFrom([]string{"valid", "absent", "empty", "invalid", "valid"}).Draw(rt, hl+".state")
				} else {
					state = rapid.SampledFrom([]string{"valid", "absent"}).Draw(rt, hl+".state")
				}
			}
			name := h.Name
			switch rapid.IntRange(0, 3).Draw(rt, hl+".case") {
			case 1:
				name = strings.ToLower(name)
			case 2:
				name = strings.ToUpper(name)
			}
			switch state {
			case "valid":
				raw.Headers = append(raw.Headers, [2]string{name, ValidHeaderValue(h, rapid.IntRange(0, 3).Draw(rt, hl+".variant"))})
			case "empty":
				raw.Headers = append(raw.Headers, [2]string{name, ""})
			case "invalid":
				v, ok := InvalidHeaderValue(h, rapid.IntRange(0, 5).Draw(rt, hl+".variant"))
				if !ok {
					state = "absent"
				} else {
					raw.Headers = append(raw.Headers, [2]string{name, v})
				}
			}
			op.Notes = append(op.Notes, "hdr:"+strings.ToLower(h.Name)+"="+state)
		}
		// body: valid, garbage or large; its arrival is delayed behind the headers
		if rpc.HasBody {
			switch rapid.IntRange(0, 3).Draw(rt, l+".bodykind") {
			case 1:
				raw.Body = []byte(rapid.SampledFrom(garbageBodies).Draw(rt, l+".garbage"))
				op.Notes = append(op.Notes, "body=garbage")
			case 2:
				raw.Body = []byte(`{"pad":"` + strings.Repeat("x", 5000) + `"}`)
				op.Notes = append(op.Notes, "body=huge")
			}
		}
		op.Raw = raw
		op.ReqBin = mustMarshal(req)
		op.RespBin = mustMarshal(md.NewResp())
		// headers first, then the body in small late chunks
		op.ReqChunks = []int{headLenOf(BuildRawRequest(raw)), 3, 7}
		op.DelaysMs = []int{0, 20, 5}
		op.DeadlineMs = 600000
		p.Ops = append(p.Ops, op)
	}
	p.Schedule = drawSchedule(rt, 32)
	return p
}

// planMatchesDocument: the header parameters the plan was drawn from (its "oa:" notes) are
// the header parameters the current OpenAPI document lists for the operation.
func planMatchesDocument(w *WorldDesc, rpc *spec.RPC, op *Op) bool {
	ops := findOperation(loadOpenAPI(w), rpc.Service, rpc.Method)
	if len(ops) != 1 {
		return false
	}
	var doc, plan []string
	for _, prm := range ops[0].Params {
		if prm.In == "header" {
			doc = append(doc, strings.ToLower(prm.Name))
		}
	}
	for _, n := range op.Notes {
		if strings.HasPrefix(n, "oa:") {
			plan = append(plan, strings.SplitN(strings.TrimPrefix(n, "oa:"), "=", 2)[0])
		}
	}
	sort.Strings(doc)
	sort.Strings(plan)
	return strings.Join(doc, "\x00") == strings.Join(plan, "\x00")
}

func (propC09) Check(k *Kernel, cov *Coverage) *Violation {
	for _, c := range k.Calls {
		if c.Op.Raw == nil || len(c.Conns) == 0 {
			continue
		}
		rpc := k.W.RPC(c.Op.RPC)
		cn := c.Conns[0]
		if noteOf(c.Op, "openapi") == "1" {
			// headers exactly as published by the OpenAPI parameter list
			if cn.Panic != "" {
				return &Violation{Class: "server-panic", Signature: "C09|server-panic|" + c.Op.Server, Detail: cn.Panic}
			}
			if !c.Returned || c.RespErr != nil {
				continue
			}
			if !planMatchesDocument(k.W, rpc, c.Op) {
				continue // replayed plan drawn from another document than the tree now emits: no verdict
			}
			if c.Status == 400 {
				ve, err := decodeValidation(c)
				if err == nil {
					for _, v := range ve.GetViolations() {
						for _, h := range rpc.Headers {
							if strings.EqualFold(v.GetField(), h.Name) {
								st := "valid"
								nSame := 0
								for _, n := range c.Op.Notes {
									if n == "oa:"+strings.ToLower(h.Name)+"=omitted-optional" {
										st = "omitted-optional"
									}
									if strings.HasPrefix(n, "oa:"+strings.ToLower(h.Name)+"=") {
										nSame++
									}
								}
								if nSame > 1 {
									// the document lists the header twice (two spellings differing in case)
									st = "listed-twice-case-variant"
								}
								return &Violation{Class: "published-headers-rejected", Signature: "C09|published-headers-rejected|" + c.Op.Server + "|" + st,
									Detail: fmt.Sprintf("op %d %s %s headers=%v satisfy the OpenAPI parameter list of the operation (%s), yet the server answers 400 naming header %q: %s", c.Op.ID, c.Op.Raw.Verb, c.Op.Raw.Target, c.Op.Raw.Headers, strings.Join(c.Op.Notes, " "), v.GetField(), v.GetDescription())}
							}
						}
					}
				}
			}
			cov.Tuple(k.W.Name, c.Op.RPC, c.Op.Server, "openapi-headers", fmt.Sprintf("status=%d", c.Status))
			continue
		}
		var offending []string
		states := map[string]string{}
		for _, n := range c.Op.Notes {
			if strings.HasPrefix(n, "hdr:") {
				kv := strings.SplitN(strings.TrimPrefix(n, "hdr:"), "=", 2)
				states[kv[0]] = kv[1]
			}
		}
		for _, h := range rpc.Headers {
			st := states[strings.ToLower(h.Name)]
			if h.Required && (st == "absent" || st == "empty" || st == "invalid") {
				offending = append(offending, strings.ToLower(h.Name))
			}
		}
		sort.Strings(offending)
		_ = headerShapes
		hsAll := headerShapes(rpc, states, false)
		sig := func(class, extra string) string {
			s := "C09|" + class + "|" + c.Op.Server
			if extra != "" {
				s += "|" + extra
			}
			return s
		}
		if cn.Panic != "" {
			return &Violation{Class: "server-panic", Signature: sig("server-panic", panicSite(cn.Panic)), Detail: cn.Panic}
		}
		if !c.Returned || c.RespErr != nil {
			return &Violation{Class: "no-response", Signature: sig("no-response", ""), Detail: fmt.Sprintf("op %d: no response: %v", c.Op.ID, c.RespErr)}
		}
		if (c.Status == 404 || c.Status == 405 || c.Status == 301 || c.Status == 307) && len(c.Seen) == 0 && !cn.Committed400() {
			// net/http's router answered before the generated code ran: not a header decision
			cov.Tuple(k.W.Name, c.Op.RPC, c.Op.Server, "unrouted")
			continue
		}
		if len(offending) > 0 {
			if c.Status != 400 || len(c.Seen) > 0 {
				return &Violation{Class: "dispatched-without-required-header", Signature: sig("dispatched-without-required-header", oneShape(k.W, rpc, states, offending[0])),
					Detail: fmt.Sprintf("op %d %s %s headers=%v: required header(s) %v absent/empty/invalid, want 400 and no dispatch; got status %d dispatched=%d", c.Op.ID, c.Op.Raw.Verb, c.Op.Raw.Target, c.Op.Raw.Headers, offending, c.Status, len(c.Seen))}
			}
			ve, err := decodeValidation(c)
			if err != nil {
				return &Violation{Class: "malformed-400", Signature: sig("malformed-400", ""), Detail: fmt.Sprintf("op %d: 400 body does not decode: %v: %q", c.Op.ID, err, truncBytes(c.RespBody))}
			}
			var got []string
			count := map[string]int{}
			for _, v := range ve.GetViolations() {
				got = append(got, strings.ToLower(v.GetField()))
				count[strings.ToLower(v.GetField())]++
			}
			sort.Strings(got)
			for _, o := range offending {
				if count[o] == 0 {
					return &Violation{Class: "offending-header-not-reported", Signature: sig("offending-header-not-reported", oneShape(k.W, rpc, states, o)),
						Detail: fmt.Sprintf("op %d %s %s headers=%v: offending headers %v, violations list %v lacks %q", c.Op.ID, c.Op.Raw.Verb, c.Op.Raw.Target, c.Op.Raw.Headers, offending, got, o)}
				}
			}
			for _, o := range offending {
				if count[o] > 1 {
					return &Violation{Class: "duplicate-violation", Signature: sig("duplicate-violation", oneShape(k.W, rpc, states, o)),
						Detail: fmt.Sprintf("op %d %s %s headers=%v: want exactly one violation per offending header %v, got %v", c.Op.ID, c.Op.Raw.Verb, c.Op.Raw.Target, c.Op.Raw.Headers, offending, got)}
				}
			}
			for g := range count {
				isOff := false
				for _, o := range offending {
					if o == g {
						isOff = true
					}
				}
				if !isOff {
					return &Violation{Class: "non-offending-header-reported", Signature: sig("non-offending-header-reported", oneShape(k.W, rpc, states, g)),
						Detail: fmt.Sprintf("op %d %s %s headers=%v: offending headers %v, but the violations list is %v", c.Op.ID, c.Op.Raw.Verb, c.Op.Raw.Target, c.Op.Raw.Headers, offending, got)}
				}
			}
			if cn.BodyReadsAtWH > 0 && c.Op.Server == "go" {
				return &Violation{Class: "body-read-before-header-decision", Signature: sig("body-read-before-header-decision", ""),
					Detail: fmt.Sprintf("op %d %s: the handler chain made %d Read call(s) on the request body before committing the 400 for headers %v", c.Op.ID, c.Op.RPC, cn.BodyReadsAtWH, offending)}
			}
			cov.Tuple(k.W.Name, c.Op.RPC, c.Op.Server, "rejected", hsAll)
			continue
		}
		// every required header present with an unambiguously valid value: never rejected for its headers
		if c.Status == 400 {
			ve, err := decodeValidation(c)
			if err == nil {
				for _, v := range ve.GetViolations() {
					for _, h := range rpc.Headers {
						if strings.EqualFold(v.GetField(), h.Name) {
							return &Violation{Class: "valid-header-rejected", Signature: sig("valid-header-rejected", oneShape(k.W, rpc, states, strings.ToLower(h.Name))),
								Detail: fmt.Sprintf("op %d %s %s headers=%v: all required headers carry unambiguously valid values, yet 400 names header %q: %s", c.Op.ID, c.Op.Raw.Verb, c.Op.Raw.Target, c.Op.Raw.Headers, v.GetField(), v.GetDescription())}
						}
					}
				}
			}
		}
		if noteOf(c.Op, "body") == "" && c.Status != 200 && (ruleViolation(c.planReq(k)) == nil || c.Op.Server == "ts") && (missingRequiredQuery(rpc, c.planReq(k)) == nil || c.Op.Server == "ts") {
			return &Violation{Class: "valid-request-rejected", Signature: sig("valid-request-rejected", fmt.Sprintf("status=%d", c.Status)),
				Detail: fmt.Sprintf("op %d %s %s headers=%v: valid request answered %d: %q", c.Op.ID, c.Op.Raw.Verb, c.Op.Raw.Target, c.Op.Raw.Headers, c.Status, truncBytes(c.RespBody))}
		}
		cov.Tuple(k.W.Name, c.Op.RPC, c.Op.Server, "accepted", hsAll, fmt.Sprintf("status=%d", c.Status))
	}
	return nil
}

// planReq decodes the request message the plan was built from.
func (c *CallState) planReq(k *Kernel) proto.Message {
	m := k.W.newReq(c.Op.RPC)
	if err := proto.Unmarshal(c.Op.ReqBin, m); err != nil {
		return nil
	}
	return m
}

// headerShapes renders the declared (type/format, required, state) of every header of
// the RPC, independent of header names.
func headerShapes(rpc *spec.RPC, states map[string]string, offendingOnly bool) string {
	var out []string
	for _, h := range rpc.Headers {
		if st := states[strings.ToLower(h.Name)]; offendingOnly && (st == "valid" || !h.Required) {
			continue
		}
		t := h.Type
		if t == "" {
			t = "unset"
		}
		if h.Format != "" {
			t += "/" + h.Format
		}
		r := "opt"
		if h.Required {
			r = "req"
		}
		out = append(out, t+":"+r+":"+states[strings.ToLower(h.Name)])
	}
	sort.Strings(out)
	return strings.Join(out, ",")
}

// oneShape names the likely cause dimension of a misjudged header: whether a
// method-level declaration overrides a service-level one of the same name, else its
// state, plus the declared type/format where the value's form matters.
func oneShape(w *WorldDesc, rpc *spec.RPC, states map[string]string, lname string) string {
	for _, h := range rpc.Headers {
		if strings.ToLower(h.Name) != lname {
			continue
		}
		if ms := methodSpec(w, rpc); ms != nil {
			for _, f := range w.Spec().Files {
				for _, sv := range f.Services {
					if sv.Name != rpc.Service {
						continue
					}
					for _, sh := range sv.Headers {
						for _, mh := range ms.Headers {
							if strings.EqualFold(sh.Name, mh.Name) && strings.EqualFold(mh.Name, h.Name) {
								return "override"
							}
						}
					}
				}
			}
		}
		st := states[lname]
		t := h.Type
		if t == "" || t == "string" {
			t = "string" // an unset type means string
		}
		if h.Format != "" {
			t = h.Format
		}
		switch st {
		case "invalid", "valid":
			return st + ":" + t
		}
		return st
	}
	return lname
}
