package simrt

import (
	"fmt"
	"net/url"
	"sort"
	"strconv"
	"strings"

	"google.golang.org/protobuf/encoding/protojson"
	"google.golang.org/protobuf/proto"
	"google.golang.org/protobuf/reflect/protoreflect"

	"verif/simrt/spec"
)

// The contract client builds raw HTTP requests from the published contract alone
// (spec.RPC), never from generated client code.

// ScalarString renders a scalar the way the contract's string<->scalar table says:
// decimal integers, true/false, shortest round-trip decimal for floats, the string itself.
func ScalarString(fd protoreflect.FieldDescriptor, v protoreflect.Value) string {
	switch fd.Kind() {
	case protoreflect.StringKind:
		return v.String()
	case protoreflect.BoolKind:
		return strconv.FormatBool(v.Bool())
	case protoreflect.FloatKind:
		return strconv.FormatFloat(v.Float(), 'g', -1, 32)
	case protoreflect.DoubleKind:
		return strconv.FormatFloat(v.Float(), 'g', -1, 64)
	case protoreflect.Int32Kind, protoreflect.Sint32Kind, protoreflect.Sfixed32Kind,
		protoreflect.Int64Kind, protoreflect.Sint64Kind, protoreflect.Sfixed64Kind:
		return strconv.FormatInt(v.Int(), 10)
	case protoreflect.Uint32Kind, protoreflect.Fixed32Kind, protoreflect.Uint64Kind, protoreflect.Fixed64Kind:
		return strconv.FormatUint(v.Uint(), 10)
	}
	return v.String()
}

// BuildTarget renders the request-target for req under the contract: path variables
// percent-encoded as path segments, query parameters for URL-bound fields.
// queryAll: emit query parameters even when the field holds its default value.
func BuildTarget(rpc *spec.RPC, req proto.Message, queryAll bool) (string, error) {
	if !rpc.PathKnown {
		return "", fmt.Errorf("rpc %s has no published path", rpc.Key)
	}
	m := req.ProtoReflect()
	fds := m.Descriptor().Fields()
	path := rpc.Path
	for _, v := range rpc.PathVars {
		fd := fds.ByName(protoreflect.Name(v))
		if fd == nil {
			return "", fmt.Errorf("no field for path variable %s", v)
		}
		path = strings.Replace(path, "{"+v+"}", url.PathEscape(ScalarString(fd, m.Get(fd))), 1)
	}
	q := url.Values{}
	for _, qp := range rpc.Query {
		fd := fds.ByName(protoreflect.Name(qp.Field))
		if fd == nil {
			continue
		}
		if fd.IsList() {
			l := m.Get(fd).List()
			for i := 0; i < l.Len(); i++ {
				q.Add(qp.Name, ScalarString(fd, l.Get(i)))
			}
			continue
		}
		if !m.Has(fd) && (!queryAll || fd.HasPresence()) {
			continue // an absent optional field has no URL form: spelling its default would set it
		}
		q.Set(qp.Name, ScalarString(fd, m.Get(fd)))
	}
	if len(q) > 0 {
		// deterministic order
		keys := make([]string, 0, len(q))
		for k := range q {
			keys = append(keys, k)
		}
		sort.Strings(keys)
		var parts []string
		for _, k := range keys {
			for _, v := range q[k] {
				parts = append(parts, url.QueryEscape(k)+"="+url.QueryEscape(v))
			}
		}
		path += "?" + strings.Join(parts, "&")
	}
	return path, nil
}

// BodyMessage returns a copy of req with the URL-bound fields cleared (what the
// contract puts in the body of a POST/PUT/PATCH).
func BodyMessage(rpc *spec.RPC, req proto.Message) proto.Message {
	b := proto.Clone(req)
	m := b.ProtoReflect()
	fds := m.Descriptor().Fields()
	for i := 0; i < fds.Len(); i++ {
		fd := fds.Get(i)
		if rpc.IsURLBound(string(fd.Name())) {
			m.Clear(fd)
		}
	}
	return b
}

// EncodeBody encodes msg for the given content type family: "json" (contract form =
// proto3 JSON) or "proto".
func EncodeBody(msg proto.Message, family string) ([]byte, error) {
	if family == "proto" {
		return proto.MarshalOptions{Deterministic: true}.Marshal(msg)
	}
	return protojson.Marshal(msg)
}

// ctFamily maps a Content-Type header value to the body codec the server documents
// for it: JSON unless it is one of the two binary types.
func ctFamily(ct string) string {
	base := ct
	for i, c := range ct {
		if c == ' ' || c == ';' {
			base = ct[:i]
			break
		}
	}
	switch base {
	case "application/x-protobuf", "application/octet-stream":
		return "proto"
	}
	return "json"
}

// ValidRaw builds a well-formed raw request for req.
func ValidRaw(rpc *spec.RPC, req proto.Message, ct string, hdrs [][2]string) (*RawReq, error) {
	target, err := BuildTarget(rpc, req, false)
	if err != nil {
		return nil, err
	}
	r := &RawReq{Verb: rpc.Verb, Target: target}
	if ct != "" {
		r.Headers = append(r.Headers, [2]string{"Content-Type", ct})
	}
	r.Headers = append(r.Headers, hdrs...)
	if rpc.HasBody {
		body, err := EncodeBody(BodyMessage(rpc, req), ctFamily(ct))
		if err != nil {
			return nil, err
		}
		r.Body = body
	} else {
		r.NoBody = true
	}
	return r, nil
}

// ValidHeaders returns valid values for every declared header of the RPC.
func ValidHeaders(rpc *spec.RPC, variant int) [][2]string {
	var out [][2]string
	for _, h := range rpc.Headers {
		out = append(out, [2]string{h.Name, ValidHeaderValue(h, variant)})
	}
	return out
}
