package simrt

import (
	"context"
	"encoding/json"
	"errors"
	"io"
	"fmt"
	"os"
	"sort"
	"strconv"
	"strings"
	"testing"
	"time"

	"pgregory.net/rapid"
)

// Violation is what an oracle reports.
type Violation struct {
	Class     string `json:"class"`
	Signature string `json:"signature"`
	Detail    string `json:"detail"`
}

func (v *Violation) String() string { return v.Class + " [" + v.Signature + "] " + v.Detail }

// Property is one checkable property: a plan generator plus oracles.
type Property interface {
	ID() string
	// Modes lists the sub-configurations (fault-free and fault-injecting runs are separate).
	Modes() []string
	Draw(rt *rapid.T, w *WorldDesc, mode string) *Plan
	// Check evaluates the oracles on a finished run. It also reports the set of
	// non-trivial coverage tuples this run contributed.
	Check(k *Kernel, cov *Coverage) *Violation
}

var properties = map[string]Property{}

func RegisterProperty(p Property) { properties[p.ID()] = p }

// Sweeper is implemented by properties that enumerate single faults around a base
// plan (thorough tier): every truncation / reset offset of the op's in-flight body.
type Sweeper interface {
	Sweep(base *Plan, k *Kernel) []*Plan
}

// Coverage accumulates what a runner process explored.
type Coverage struct {
	Tuples        map[string]int `json:"tuples"`
	Interleavings map[string]int `json:"-"`
}

func (c *Coverage) Tuple(parts ...string) {
	if c.Tuples == nil {
		c.Tuples = map[string]int{}
	}
	c.Tuples[strings.Join(parts, "|")]++
}

// FoundViolation is a violation with its replayable plan.
type FoundViolation struct {
	Violation
	Plan    *Plan    `json:"plan"`
	LogHash string   `json:"log_hash"`
	Log     []string `json:"log,omitempty"`
	Known   bool     `json:"known,omitempty"`
	Shrunk  bool     `json:"shrunk,omitempty"`
}

// Result is what one runner process writes.
type Result struct {
	World         string            `json:"world"`
	Prop          string            `json:"prop"`
	Mode          string            `json:"mode"`
	Seed          uint64            `json:"seed"`
	Runs          int               `json:"runs"`
	SimTimeUs     int64             `json:"sim_time_us"`
	Steps         int64             `json:"steps"`
	Violations    []*FoundViolation `json:"violations,omitempty"`
	KnownHits     map[string]int    `json:"known_hits,omitempty"`
	KnownSamples  map[string]*FoundViolation `json:"known_samples,omitempty"`
	Faults        map[string]int    `json:"faults,omitempty"`
	Probes        map[string]int    `json:"probes,omitempty"`
	Tuples        map[string]int    `json:"tuples,omitempty"`
	Interleavings int               `json:"interleavings"`
	ILHashes      []string          `json:"il_hashes,omitempty"`
	Samples       []json.RawMessage `json:"samples,omitempty"`
	StepCaps      int               `json:"step_caps,omitempty"`
	SweepRuns     int               `json:"sweep_runs,omitempty"`
	HarnessErrors []string          `json:"harness_errors,omitempty"`
	WallMs        int64             `json:"wall_ms"`
	LogHashes     []string          `json:"log_hashes,omitempty"` // determinism witness (per run, in order)
}

func envInt(name string, def int) int {
	if v := os.Getenv(name); v != "" {
		if n, err := strconv.Atoi(v); err == nil {
			return n
		}
	}
	return def
}

type runner struct {
	t     *testing.T
	w     *WorldDesc
	prop  Property
	mode  string
	res   *Result
	cov   *Coverage
	known map[string]bool
	last  *FoundViolation
}

func (r *runner) merge(k *Kernel) {
	r.res.Runs++
	r.res.SimTimeUs += k.EndAt.Microseconds()
	r.res.Steps += int64(k.Steps)
	if k.StepCap {
		r.res.StepCaps++
	}
	for f, n := range k.Stats.Faults {
		if r.res.Faults == nil {
			r.res.Faults = map[string]int{}
		}
		r.res.Faults[f] += n
	}
	for f, n := range k.Stats.Probes {
		if r.res.Probes == nil {
			r.res.Probes = map[string]int{}
		}
		r.res.Probes[f] += n
	}
	for p, n := range reachProbes(k) {
		if r.res.Probes == nil {
			r.res.Probes = map[string]int{}
		}
		r.res.Probes[p] += n
	}
	if r.cov.Interleavings == nil {
		r.cov.Interleavings = map[string]int{}
	}
	r.cov.Interleavings[k.ILHash()]++
}

// execute runs one plan and evaluates the oracles.
func (r *runner) execute(p *Plan, keepLog bool) (*Kernel, *Violation) {
	k := RunPlan(r.t, r.w, p, keepLog)
	r.merge(k)
	if len(k.Panics) > 0 {
		// a panic in the kernel itself is harness trouble unless it is the bubble's deadlock report
		r.res.HarnessErrors = append(r.res.HarnessErrors, k.Panics...)
		return k, nil
	}
	if k.StepCap {
		return k, nil
	}
	v := r.prop.Check(k, r.cov)
	if v == nil && len(k.TSCrashes) > 0 {
		// generated TS code brought its process down (in production: every request in flight is lost)
		v = &Violation{Class: "ts-process-crash", Signature: r.prop.ID() + "|ts-process-crash|" + p.Mode,
			Detail: "the Node process running the generated TS code reported " + strings.Join(k.TSCrashes, "; ")}
	}
	return k, v
}

// Main is the entry point of the runner test binary.
func Main(t *testing.T) {
	worldName := os.Getenv("VERIF_WORLD")
	propID := os.Getenv("VERIF_PROP")
	mode := os.Getenv("VERIF_MODE")
	out := os.Getenv("VERIF_OUT")
	if worldName == "" {
		t.Skip("VERIF_WORLD not set; worlds: " + strings.Join(WorldNames(), ","))
	}
	pinProtoRand(worldName)
	w := GetWorld(worldName)
	if w == nil {
		t.Fatalf("unknown world %q (have %v)", worldName, WorldNames())
	}
	prop := properties[propID]
	if prop == nil {
		t.Fatalf("unknown property %q", propID)
	}
	if mode == "" {
		mode = prop.Modes()[0]
	}
	soloT = t
	// the Node co-simulator is started only for runs that use it (C11: only the TS client modes)
	if os.Getenv("VERIF_NODE") != "" && !w.Spec().NoTS && (propID != "C11" || strings.HasPrefix(mode, "ts-")) {
		b, err := StartBridge()
		if err != nil {
			t.Fatalf("starting TS bridge: %v", err)
		}
		b.keepLog = os.Getenv("VERIF_KEEPLOG") != ""
		globalBridge = b
		defer b.Close()
	}
	t0 := time.Now()
	r := &runner{t: t, w: w, prop: prop, mode: mode, cov: &Coverage{}, known: map[string]bool{}}
	r.res = &Result{World: worldName, Prop: propID, Mode: mode, KnownHits: map[string]int{}, KnownSamples: map[string]*FoundViolation{}}
	if kf := os.Getenv("VERIF_KNOWN"); kf != "" {
		for _, s := range strings.Split(kf, "\x1f") {
			if s != "" {
				r.known[s] = true
			}
		}
	}
	defer func() {
		r.res.WallMs = time.Since(t0).Milliseconds()
		r.res.Tuples = r.cov.Tuples
		r.res.Interleavings = len(r.cov.Interleavings)
		if os.Getenv("VERIF_ILHASHES") != "" {
			for h := range r.cov.Interleavings {
				r.res.ILHashes = append(r.res.ILHashes, h)
			}
			sort.Strings(r.res.ILHashes)
		}
		if out != "" {
			b, _ := json.MarshalIndent(r.res, "", " ")
			if err := os.WriteFile(out, b, 0o644); err != nil {
				t.Errorf("writing result: %v", err)
			}
		}
	}()

	if pf := os.Getenv("VERIF_PLAN"); pf != "" {
		p, err := LoadPlan(pf)
		if err != nil {
			t.Fatalf("loading plan: %v", err)
		}
		k, v := r.execute(p, true)
		r.res.LogHashes = append(r.res.LogHashes, k.LogHash())
		if v != nil {
			fv := &FoundViolation{Violation: *v, Plan: p, LogHash: k.LogHash(), Log: k.Log}
			r.res.Violations = append(r.res.Violations, fv)
			fmt.Printf("REPLAY-VIOLATION %s\n", v.String())
		} else {
			fmt.Printf("REPLAY-CLEAN loghash=%s\n", k.LogHash())
		}
		return
	}

	sampleEvery := envInt("VERIF_SAMPLE_EVERY", 50)
	wantHashes := os.Getenv("VERIF_LOGHASHES") != ""
	sweepOn := os.Getenv("VERIF_SWEEP") != ""
	maxSweeps := envInt("VERIF_SWEEP_MAX", 40)
	sweeps := 0
	// rapid.Check fails the test on a violation and shrinks the plan; the last
	// failing execution is the minimal one, so r.last ends up holding it.
	defer func() {
		if r.last != nil {
			r.last.Shrunk = true
			r.res.Violations = append(r.res.Violations, r.last)
		}
	}()
	rapid.Check(t, func(rt *rapid.T) {
		p := prop.Draw(rt, w, mode)
		p.Prop, p.World, p.Mode = propID, worldName, mode
		dumpDir := os.Getenv("VERIF_DUMPLOGS")
		k, v := r.execute(p, dumpDir != "")
		if wantHashes {
			r.res.LogHashes = append(r.res.LogHashes, k.LogHash())
		}
		if dumpDir != "" {
			pb, _ := json.Marshal(p)
			_ = os.WriteFile(fmt.Sprintf("%s/run%04d.log", dumpDir, r.res.Runs), []byte(string(pb)+"\n"+strings.Join(k.Log, "\n")+"\n"), 0o644)
		}
		if len(r.res.Samples) < 3 && r.res.Runs%sampleEvery == 1 {
			b, _ := json.Marshal(p)
			r.res.Samples = append(r.res.Samples, b)
		}
		if v == nil && sweepOn && len(k.Panics) == 0 {
			if sw, ok := prop.(Sweeper); ok && (sweeps < maxSweeps || r.last != nil) {
				plans := sw.Sweep(p, k)
				if len(plans) > 0 {
					sweeps++
				}
				for _, sp := range plans {
					sp.Prop, sp.World, sp.Mode = propID, worldName, mode
					k2, v2 := r.execute(sp, false)
					r.res.SweepRuns++
					if v2 != nil && !r.known[v2.Signature] {
						p, k, v = sp, k2, v2
						break
					} else if v2 != nil {
						r.res.KnownHits[v2.Signature]++
						if r.res.KnownSamples[v2.Signature] == nil {
							r.res.KnownSamples[v2.Signature] = &FoundViolation{Violation: *v2, Plan: sp, LogHash: k2.LogHash(), Known: true}
						}
					}
				}
			}
		}
		if v == nil {
			return
		}
		if r.known[v.Signature] {
			r.res.KnownHits[v.Signature]++
			if r.res.KnownSamples[v.Signature] == nil {
				r.res.KnownSamples[v.Signature] = &FoundViolation{Violation: *v, Plan: p, LogHash: k.LogHash(), Known: true}
			}
			return
		}
		if r.last != nil && r.last.Signature != v.Signature {
			// shrinking must stay on the violation first found
			return
		}
		r.last = &FoundViolation{Violation: *v, Plan: p, LogHash: k.LogHash()}
		rt.Fatalf("VIOLATION %s", v.String())
	})
}

// reachProbes counts rare conditions this run actually reached (a probe stuck at zero
// over a whole check means the workload or fault mix has to change).
func reachProbes(k *Kernel) map[string]int {
	out := map[string]int{}
	for _, cn := range k.conns {
		if cn.BodyErr != nil {
			if errors.Is(cn.BodyErr, io.ErrUnexpectedEOF) {
				out["unexpected_eof_at_binder"]++
			}
			if cn.BodyBytes == 0 {
				out["read_error_before_first_byte"]++
			}
		}
		switch cn.status {
		case 301, 307, 308:
			out["mux_redirect"]++
		case 405:
			out["mux_405"]++
		case 404:
			out["mux_404"]++
		}
		if cn.dup && cn.Dispatched > 0 {
			out["dup_dispatched"]++
		}
		if cn.TSUnrouted {
			out["ts_unrouted"]++
		}
	}
	for _, c := range k.Calls {
		if c.Err != nil && errors.Is(c.Err, context.DeadlineExceeded) {
			out["client_deadline_fired"]++
		}
		if c.Err != nil && strings.Contains(c.Err.Error(), "Client.Timeout") {
			out["client_timeout_fired"]++
		}
		if c.Hung {
			out["call_blocked_forever_without_deadline"]++
		}
		if len(c.Conns) > 1 {
			out["redirect_followed_or_dup"]++
		}
	}
	if k.Race != nil {
		out["accesses_checked"] += k.Race.Accs
		out["sim_once_bodies_run"] += len(k.Race.onces)
	}
	return out
}
