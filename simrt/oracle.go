package simrt

import (
	"fmt"
	"sort"
	"strings"

	"google.golang.org/protobuf/encoding/protojson"
	"google.golang.org/protobuf/proto"
	"google.golang.org/protobuf/reflect/protoreflect"
	"pgregory.net/rapid"

	"verif/simrt/spec"
)

// fieldShape describes a top-level request field for signatures: where it travels
// and what it is, independent of its name.
func fieldShape(w *WorldDesc, rpc *spec.RPC, msgFQ, name string) string {
	place := "body"
	if rpc != nil {
		for _, v := range rpc.PathVars {
			if v == name {
				place = "path"
			}
		}
		for _, q := range rpc.Query {
			if q.Field == name {
				place = "query"
			}
		}
	}
	m, _ := w.Spec().FindMessage(msgFQ)
	if m == nil {
		return place + ":?"
	}
	f := m.Field(name)
	if f == nil {
		return place + ":?"
	}
	card := f.Card
	if card == "" {
		card = "singular"
	}
	if f.Oneof != "" {
		card = "oneof"
	}
	s := place + ":" + f.Kind + ":" + card
	if f.Kind == "message" {
		if i := strings.LastIndex(f.TypeName, "."); i >= 0 && strings.HasPrefix(f.TypeName[i+1:], "Ann") {
			s += ":type=" + f.TypeName[i+1:]
		}
	}
	if a := fieldAnn(f); a != "" {
		s += ":" + a
	}
	return s
}

func fieldAnn(f *spec.Field) string {
	var a []string
	if f.Unwrap {
		a = append(a, "unwrap")
	}
	if f.Int64Encoding != "" {
		a = append(a, "int64="+f.Int64Encoding)
	}
	if f.EnumEncoding != "" {
		a = append(a, "enum="+f.EnumEncoding)
	}
	if f.Nullable != nil {
		a = append(a, "nullable")
	}
	if f.EmptyBehavior != "" {
		a = append(a, "empty="+f.EmptyBehavior)
	}
	if f.TimestampFormat != "" {
		a = append(a, "ts="+f.TimestampFormat)
	}
	if f.BytesEncoding != "" {
		a = append(a, "bytes="+f.BytesEncoding)
	}
	if f.Flatten {
		a = append(a, "flatten")
	}
	return strings.Join(a, ",")
}

// firstDiff returns the name of the first top-level field on which a and b differ.
func firstDiff(a, b proto.Message) string {
	if a == nil || b == nil {
		return "<nil>"
	}
	ra, rb := a.ProtoReflect(), b.ProtoReflect()
	if ra.Descriptor() != rb.Descriptor() {
		return "<type>"
	}
	fds := ra.Descriptor().Fields()
	for i := 0; i < fds.Len(); i++ {
		fd := fds.Get(i)
		x, y := proto.Clone(a), proto.Clone(b)
		// compare the single field by clearing all others
		clearExcept(x.ProtoReflect(), fd)
		clearExcept(y.ProtoReflect(), fd)
		if !proto.Equal(x, y) {
			return string(fd.Name())
		}
	}
	if !proto.Equal(a, b) {
		return "<unknown-fields>"
	}
	return ""
}

func clearExcept(m protoreflect.Message, keep protoreflect.FieldDescriptor) {
	fds := m.Descriptor().Fields()
	for i := 0; i < fds.Len(); i++ {
		fd := fds.Get(i)
		if fd != keep {
			m.Clear(fd)
		}
	}
	m.SetUnknown(nil)
}

func jsonOf(m proto.Message) string {
	if m == nil {
		return "<nil>"
	}
	b, err := protojson.MarshalOptions{EmitUnpopulated: false}.Marshal(m)
	if err != nil {
		return "<" + err.Error() + ">"
	}
	s := string(b)
	if len(s) > 400 {
		s = s[:400] + "…"
	}
	return s
}

// effective content type the generated Go client will use for op.
func effectiveCT(p *Plan, op *Op) string {
	ct := "application/json"
	if op.ClientIdx < len(p.Clients) {
		for _, o := range p.Clients[op.ClientIdx] {
			if o.Kind == "contentType" {
				ct = o.Value
			}
		}
	}
	for _, o := range op.Opts {
		if o.Kind == "contentType" {
			ct = o.Value
		}
	}
	return ct
}

func rpcShape(r *spec.RPC) string {
	if r == nil {
		return "?"
	}
	s := r.Verb
	if !r.PathKnown {
		s += ",defaultpath"
	}
	if len(r.PathVars) > 0 {
		s += fmt.Sprintf(",pathvars=%d", len(r.PathVars))
	}
	if len(r.Query) > 0 {
		s += ",query"
	}
	return s
}

// ---------- plan drawing helpers shared by properties ----------

func drawChunks(rt *rapid.T, label string) []int {
	switch rapid.IntRange(0, 3).Draw(rt, label+"#mode") {
	case 0:
		return nil // whole message at once
	case 1:
		return []int{1}
	default:
		return rapid.SliceOfN(rapid.IntRange(1, 64), 1, 4).Draw(rt, label)
	}
}

func drawDelays(rt *rapid.T, label string) []int {
	if rapid.IntRange(0, 2).Draw(rt, label+"#on") == 0 {
		return nil
	}
	return rapid.SliceOfN(rapid.IntRange(0, 50), 1, 3).Draw(rt, label)
}

func drawSchedule(rt *rapid.T, n int) []int {
	if rapid.IntRange(0, 3).Draw(rt, "sched#on") == 0 {
		return nil
	}
	return rapid.SliceOfN(rapid.IntRange(0, 7), 0, n).Draw(rt, "sched")
}

var contentTypes = []string{"", "application/json", "application/x-protobuf", "application/octet-stream"}

// drawReq draws a request for md with path-bound fields non-empty.
func drawReq(rt *rapid.T, w *WorldDesc, md *MethodDesc, label string) proto.Message {
	rpc := w.RPC(md.Key)
	opt := &GenOpts{NonEmpty: map[string]bool{}}
	if rpc != nil {
		for _, v := range rpc.PathVars {
			opt.NonEmpty[v] = true
		}
	}
	return NewFilled(rt, md.NewReq, label, opt)
}

func mustMarshal(m proto.Message) []byte {
	b, err := proto.MarshalOptions{Deterministic: true}.Marshal(m)
	if err != nil {
		panic("simrt: cannot marshal drawn message: " + err.Error())
	}
	return b
}

func sortedKeys[V any](m map[string]V) []string {
	var ks []string
	for k := range m {
		ks = append(ks, k)
	}
	sort.Strings(ks)
	return ks
}

// ---------- headers ----------

// ValidHeaderValue returns a value inside the unambiguously-valid column of the
// header table (DESIGN.md Appendix C.2) for the declared type/format.
func ValidHeaderValue(h *spec.Header, variant int) string {
	pickv := func(xs ...string) string { return xs[variant%len(xs)] }
	switch h.Type {
	case "integer":
		return pickv("42", "0", "-7", "123456789012")
	case "number":
		return pickv("3.5", "0", "-1e3", "42")
	case "boolean":
		return pickv("true", "false")
	case "array":
		return pickv("a,b", "a")
	}
	switch h.Format {
	case "uuid":
		return pickv("123e4567-e89b-12d3-a456-426614174000", "00000000-0000-0000-0000-000000000000", "018f4e2a-7c3b-7d10-8a4e-9b1c2d3e4f50", "ffffffff-ffff-ffff-ffff-ffffffffffff", "6ba7b810-9dad-61d1-c0b4-00c04fd430c8")
	case "email":
		return pickv("a@b.co", "first.last@example.org")
	case "date-time":
		return pickv("2024-01-15T10:00:00Z", "2024-02-29T23:59:59+02:00", "1999-12-31T00:00:00.123Z")
	case "date":
		return pickv("2024-01-15", "2000-02-29")
	case "time":
		return pickv("10:00:00", "23:59:59")
	}
	return pickv("abc", "tok_1", "x-y.z")
}

// drawHeaderOpts returns per-call options giving every declared header of the RPC a
// valid value, via the generic header option or the typed helper.
func drawHeaderOpts(rt *rapid.T, rpc *spec.RPC, label string) []Opt {
	var out []Opt
	if rpc == nil {
		return nil
	}
	for i, h := range rpc.Headers {
		v := ValidHeaderValue(h, rapid.IntRange(0, 3).Draw(rt, fmt.Sprintf("%s.h%d.variant", label, i)))
		kind := "header"
		if rapid.Bool().Draw(rt, fmt.Sprintf("%s.h%d.helper", label, i)) {
			kind = "helper"
		}
		out = append(out, Opt{Kind: kind, Key: h.Name, Value: v})
	}
	return out
}

// drawValidReq draws a request that satisfies the declared validation rules and
// carries every required query parameter.
func drawValidReq(rt *rapid.T, w *WorldDesc, md *MethodDesc, label string) proto.Message {
	req := drawReq(rt, w, md, label)
	Repair(w, req.ProtoReflect(), 0)
	if rpc := w.RPC(md.Key); rpc != nil {
		m := req.ProtoReflect()
		for _, q := range rpc.Query {
			fd := m.Descriptor().Fields().ByName(protoreflect.Name(q.Field))
			if q.Required && fd != nil && !fd.IsList() && (!m.Has(fd) || isNegZero(fd, m.Get(fd))) {
				// (-0 is "set" for protobuf but equal to 0 for the clients' zero-value elision)
				m.Set(fd, nonZeroValue(fd))
			}
		}
	}
	return req
}

// drawServer picks the server implementation for an op: the TS server takes part when
// the Node bridge is running (JSON only).
func drawServer(rt *rapid.T, label string) string {
	if globalBridge == nil {
		return "go"
	}
	return rapid.SampledFrom([]string{"go", "go", "ts"}).Draw(rt, label)
}

// annType returns the name of the message type when it is one of the generator's
// dedicated annotated types (Ann*), else "plain".
func annType(fq string) string {
	if i := strings.LastIndex(fq, "."); i >= 0 && strings.HasPrefix(fq[i+1:], "Ann") {
		return fq[i+1:]
	}
	return "plain"
}

func isNegZero(fd protoreflect.FieldDescriptor, v protoreflect.Value) bool {
	if fd.Kind() != protoreflect.FloatKind && fd.Kind() != protoreflect.DoubleKind {
		return false
	}
	return v.Float() == 0
}
