package simrt

import (
	"bufio"
	"bytes"
	"encoding/json"
	"errors"
	"fmt"
	"io"
	"math"
	"math/big"
	"net/http"
	"strconv"
	"strings"
	"time"

	sebufhttp "github.com/SebastienMelki/sebuf/http"
	"google.golang.org/protobuf/encoding/protojson"
	"google.golang.org/protobuf/proto"
	"pgregory.net/rapid"

	"verif/simrt/spec"
)

// C11: malformed traffic is rejected cleanly; nothing crashes or hangs.
type propC11 struct{}

func init() { RegisterProperty(propC11{}) }

func (propC11) ID() string { return "C11" }
func (propC11) Modes() []string {
	return []string{"server-link-faults", "server-garbage", "client-faults", "ts-client-faults"}
}

var rawContentTypes = []string{"application/json", "application/json; charset=utf-8", "application/x-protobuf", "application/octet-stream",
	"text/plain", "", "application/x-protobuf; v=1", "APPLICATION/JSON", "application/jsonx"}

func drawFaultAt(rt *rapid.T, label string) int {
	if rapid.Bool().Draw(rt, label+"#small") {
		return rapid.IntRange(0, 24).Draw(rt, label)
	}
	return rapid.IntRange(0, 400).Draw(rt, label)
}

func (propC11) Draw(rt *rapid.T, w *WorldDesc, mode string) *Plan {
	p := &Plan{}
	methods := w.AllMethods()
	switch mode {
	case "server-link-faults":
		nOps := rapid.IntRange(1, 3).Draw(rt, "nOps")
		ct := rapid.SampledFrom([]string{"application/json", "application/x-protobuf"}).Draw(rt, "clientCT")
		p.Clients = [][]Opt{{{Kind: "contentType", Value: ct}}}
		for i := 0; i < nOps; i++ {
			md := drawBodyMethod(rt, w, methods, fmt.Sprintf("op%d.rpc", i))
			rpc := w.RPC(md.Key)
			op := &Op{ID: i, RPC: md.Key, Server: "go", App: AppBehaviour{Kind: "respond"}}
			req := drawReq(rt, w, md, fmt.Sprintf("op%d.req", i))
			resp := NewFilled(rt, md.NewResp, fmt.Sprintf("op%d.resp", i), nil)
			op.ReqBin, op.RespBin = mustMarshal(req), mustMarshal(resp)
			op.ReqJSON = jsonOf(req)
			if rpc.PathKnown && rapid.Bool().Draw(rt, fmt.Sprintf("op%d.raw", i)) {
				rct := rapid.SampledFrom([]string{"application/json", "application/x-protobuf", "application/octet-stream"}).Draw(rt, fmt.Sprintf("op%d.rawct", i))
				raw, err := ValidRaw(rpc, req, rct, ValidHeaders(rpc, 0))
				if err == nil {
					op.Client = "raw"
					op.Raw = raw
					op.Raw.Chunked = rpc.HasBody && rapid.IntRange(0, 4).Draw(rt, fmt.Sprintf("op%d.chunked", i)) == 0
				}
			}
			if op.Client == "" {
				op.Client = "go"
				op.Opts = drawHeaderOpts(rt, rpc, fmt.Sprintf("op%d.hdr", i))
			}
			op.ReqChunks = drawChunks(rt, fmt.Sprintf("op%d.reqChunks", i))
			op.RespChunks = drawChunks(rt, fmt.Sprintf("op%d.respChunks", i))
			// every op gets a fault placed inside its in-flight request (no idle faults)
			kind := rapid.SampledFrom([]string{"truncate", "truncate", "reset", "reset", "stall", "dup", "drop", "write-error"}).Draw(rt, fmt.Sprintf("op%d.fault", i))
			f := Fault{Kind: kind, Dir: "req"}
			switch kind {
			case "truncate", "reset", "stall":
				f.At = drawFaultAt(rt, fmt.Sprintf("op%d.at", i))
				f.InHead = rapid.IntRange(0, 9).Draw(rt, fmt.Sprintf("op%d.inhead", i)) == 0
			case "write-error":
				f.At = rapid.IntRange(0, 40).Draw(rt, fmt.Sprintf("op%d.at", i))
			}
			op.Faults = []Fault{f}
			// calls that may never get an answer carry a deadline so the run ends
			op.DeadlineMs = rapid.SampledFrom([]int{500, 2000, 30000}).Draw(rt, fmt.Sprintf("op%d.deadline", i))
			p.Ops = append(p.Ops, op)
		}
	case "server-garbage":
		nOps := rapid.IntRange(1, 2).Draw(rt, "nOps")
		for i := 0; i < nOps; i++ {
			md := drawBodyMethod(rt, w, methods, fmt.Sprintf("op%d.rpc", i))
			rpc := w.RPC(md.Key)
			op := &Op{ID: i, RPC: md.Key, Client: "raw", Server: "go", App: AppBehaviour{Kind: "respond"}}
			req := drawReq(rt, w, md, fmt.Sprintf("op%d.req", i))
			op.ReqBin = mustMarshal(req)
			op.ReqJSON = jsonOf(req)
			op.RespBin = mustMarshal(md.NewResp())
			ct := rapid.SampledFrom(rawContentTypes).Draw(rt, fmt.Sprintf("op%d.ct", i))
			if !rpc.PathKnown {
				// no published path: use the Go server's registration as seen by a plain call first
				rpc = nil
			}
			var raw *RawReq
			if rpc != nil {
				raw, _ = ValidRaw(rpc, req, ct, ValidHeaders(rpc, 0))
			}
			if raw == nil {
				raw = &RawReq{Verb: "POST", Target: "/", Headers: [][2]string{{"Content-Type", ct}}}
			}
			if rpc != nil && rpc.HasBody {
				raw.Body = mutateBody(rt, raw.Body, ctFamily(ct), fmt.Sprintf("op%d.mut", i))
				raw.Chunked = rapid.IntRange(0, 5).Draw(rt, fmt.Sprintf("op%d.chunked", i)) == 0
			}
			op.Raw = raw
			op.ReqChunks = drawChunks(rt, fmt.Sprintf("op%d.reqChunks", i))
			op.DeadlineMs = 60000
			p.Ops = append(p.Ops, op)
		}
	case "client-faults":
		nOps := rapid.IntRange(1, 3).Draw(rt, "nOps")
		ct := rapid.SampledFrom([]string{"", "application/json", "application/x-protobuf"}).Draw(rt, "clientCT")
		if ct != "" {
			p.Clients = [][]Opt{{{Kind: "contentType", Value: ct}}}
		}
		p.TimeoutMs = rapid.SampledFrom([]int{0, 0, 1000, 30000}).Draw(rt, "clientTimeout")
		for i := 0; i < nOps; i++ {
			md := methods[rapid.IntRange(0, len(methods)-1).Draw(rt, fmt.Sprintf("op%d.rpc", i))]
			rpc := w.RPC(md.Key)
			op := &Op{ID: i, RPC: md.Key, Client: "go", App: AppBehaviour{Kind: "respond"}}
			req := drawReq(rt, w, md, fmt.Sprintf("op%d.req", i))
			resp := NewFilled(rt, md.NewResp, fmt.Sprintf("op%d.resp", i), nil)
			op.ReqBin, op.RespBin = mustMarshal(req), mustMarshal(resp)
			op.Opts = drawHeaderOpts(rt, rpc, fmt.Sprintf("op%d.hdr", i))
			op.RespChunks = drawChunks(rt, fmt.Sprintf("op%d.respChunks", i))
			op.DeadlineMs = rapid.SampledFrom([]int{0, 0, 200, 5000}).Draw(rt, fmt.Sprintf("op%d.deadline", i))
			if rapid.Bool().Draw(rt, fmt.Sprintf("op%d.rogue", i)) {
				op.Server = "rogue"
				op.Rogue = drawRogue(rt, resp, fmt.Sprintf("op%d.rogue", i))
			} else {
				op.Server = "go"
			}
			kind := rapid.SampledFrom([]string{"none", "truncate", "reset", "stall", "cancel", "drop"}).Draw(rt, fmt.Sprintf("op%d.fault", i))
			switch kind {
			case "truncate", "reset", "stall":
				op.Faults = []Fault{{Kind: kind, Dir: "resp", At: drawFaultAt(rt, fmt.Sprintf("op%d.at", i)),
					InHead: rapid.IntRange(0, 5).Draw(rt, fmt.Sprintf("op%d.inhead", i)) == 0}}
			case "cancel":
				op.Faults = []Fault{{Kind: "cancel", AtMs: rapid.IntRange(0, 50).Draw(rt, fmt.Sprintf("op%d.cancelAt", i))}}
				op.DelaysMs = []int{10, 20}
			case "drop":
				op.Faults = []Fault{{Kind: "drop"}}
			}
			p.Ops = append(p.Ops, op)
		}
	case "ts-client-faults":
		// the generated TS client (Node 22, injected fetch) against rogue peers and response faults
		if w.Spec().NoTS {
			return p
		}
		nOps := rapid.IntRange(1, 3).Draw(rt, "nOps")
		for i := 0; i < nOps; i++ {
			md := methods[rapid.IntRange(0, len(methods)-1).Draw(rt, fmt.Sprintf("op%d.rpc", i))]
			rpc := w.RPC(md.Key)
			op := &Op{ID: i, RPC: md.Key, Client: "ts", App: AppBehaviour{Kind: "respond"}}
			req := drawValidReq(rt, w, md, fmt.Sprintf("op%d.req", i))
			resp := NewFilled(rt, md.NewResp, fmt.Sprintf("op%d.resp", i), nil)
			scrubNonFinite(req.ProtoReflect(), 0)
			scrubNonFinite(resp.ProtoReflect(), 0)
			op.ReqBin, op.RespBin = mustMarshal(req), mustMarshal(resp)
			op.ReqJSON, op.RespJSON = jsonOf(req), jsonOf(resp)
			op.Opts = drawHeaderOpts(rt, rpc, fmt.Sprintf("op%d.hdr", i))
			op.RespChunks = drawChunks(rt, fmt.Sprintf("op%d.respChunks", i))
			if rapid.IntRange(0, 3).Draw(rt, fmt.Sprintf("op%d.rogue", i)) != 0 {
				op.Server = "rogue"
				op.Rogue = drawRogue(rt, resp, fmt.Sprintf("op%d.rogue", i))
			} else {
				op.Server = "go"
			}
			kind := rapid.SampledFrom([]string{"none", "none", "truncate", "reset", "stall", "cancel", "drop"}).Draw(rt, fmt.Sprintf("op%d.fault", i))
			switch kind {
			case "truncate", "reset", "stall":
				op.Faults = []Fault{{Kind: kind, Dir: "resp", At: drawFaultAt(rt, fmt.Sprintf("op%d.at", i)),
					InHead: rapid.IntRange(0, 5).Draw(rt, fmt.Sprintf("op%d.inhead", i)) == 0}}
			case "cancel":
				op.Faults = []Fault{{Kind: "cancel", AtMs: rapid.IntRange(0, 50).Draw(rt, fmt.Sprintf("op%d.cancelAt", i))}}
				op.DelaysMs = []int{10, 20}
			case "drop":
				op.Faults = []Fault{{Kind: "drop"}}
			}
			// a caller-side time limit (AbortSignal.timeout): the fetch fails when it expires
			op.DeadlineMs = rapid.SampledFrom([]int{0, 200, 5000}).Draw(rt, fmt.Sprintf("op%d.deadline", i))
			if kind == "stall" || kind == "drop" {
				op.DeadlineMs = rapid.SampledFrom([]int{200, 5000}).Draw(rt, fmt.Sprintf("op%d.deadline2", i))
			}
			p.Ops = append(p.Ops, op)
		}
	}
	p.Schedule = drawSchedule(rt, 48)
	return p
}

// drawBodyMethod prefers RPCs with a request body (that is where in-flight body
// faults land) but also picks body-less ones.
func drawBodyMethod(rt *rapid.T, w *WorldDesc, methods []*MethodDesc, label string) *MethodDesc {
	var withBody []*MethodDesc
	for _, m := range methods {
		if r := w.RPC(m.Key); r != nil && r.HasBody {
			withBody = append(withBody, m)
		}
	}
	if len(withBody) > 0 && rapid.IntRange(0, 4).Draw(rt, label+"#any") != 0 {
		return withBody[rapid.IntRange(0, len(withBody)-1).Draw(rt, label)]
	}
	return methods[rapid.IntRange(0, len(methods)-1).Draw(rt, label)]
}

var garbageBodies = []string{"", "null", "[]", "123", `"str"`, "{", "}", "{}", `{"a":`, `{"a":1,"a":2}`, "true", "[[[[[[[[[[[[[[[[[[[[[[[[[[[[[[[[", `{"x":1e400}`,
	"\xff\xfe", `{"\ud800":1}`, "{\"a\":\"\xc3\x28\"}", "\x00", "\x08", "\x0a\xff\xff\xff\xff\x0f", "\x12\x05ab", "\xff\xff\xff\xff\xff\xff\xff\xff\xff\xff\x01", " ", "\n{}\n", "{}{}", `{"":{}}`}

var jsonSwapValues = []string{`"` + strings.Repeat("日", 85) + `"`, `"` + strings.Repeat("é", 127) + `x"`, `"a` + strings.Repeat("日本", 60) + `"`, "null", "1e400", `"str"`, "[]", "{}", "true", "-1", "1.5", `"` + strings.Repeat("x", 300) + `"`, `[[[[[[[[{}]]]]]]]]`, "18446744073709551616", `"18446744073709551616"`, `"NaN"`, `"2024-13-45T99:99:99Z"`, `"@@@"`, "0", `""`,
	// instants outside the Timestamp range (years 1..9999), as seconds and as milliseconds
	"253402300800", "9223372036854775807", "-62135596801", "253402300800000", "1000000000000000000", "-9223372036854775808"}

// mutateBody applies drawn mutations to a valid body.
func mutateBody(rt *rapid.T, body []byte, family, label string) []byte {
	b := append([]byte(nil), body...)
	n := rapid.IntRange(1, 3).Draw(rt, label+"#n")
	for i := 0; i < n; i++ {
		l := fmt.Sprintf("%s#%d", label, i)
		switch rapid.IntRange(0, 6).Draw(rt, l+".kind") {
		case 0: // replace wholesale
			b = []byte(rapid.SampledFrom(garbageBodies).Draw(rt, l+".garbage"))
		case 1: // truncate (client sends a short but consistently framed body)
			if len(b) > 0 {
				b = b[:rapid.IntRange(0, len(b)-1).Draw(rt, l+".cut")]
			}
		case 2: // flip a byte
			if len(b) > 0 {
				j := rapid.IntRange(0, len(b)-1).Draw(rt, l+".pos")
				b[j] ^= byte(rapid.IntRange(1, 255).Draw(rt, l+".xor"))
			}
		case 3: // insert bytes
			j := rapid.IntRange(0, len(b)).Draw(rt, l+".pos")
			ins := rapid.SliceOfN(rapid.Byte(), 1, 6).Draw(rt, l+".ins")
			b = append(b[:j:j], append(ins, b[j:]...)...)
		case 4: // JSON token swap on a (possibly nested) key
			if family == "json" {
				b = jsonSwap(rt, b, l)
			} else {
				b = append(b, rapid.SliceOfN(rapid.Byte(), 1, 4).Draw(rt, l+".tail")...)
			}
		case 5: // trailing data after a complete value
			switch rapid.IntRange(0, 3).Draw(rt, l+".trail") {
			case 0:
				b = append(b, b...)
			case 1:
				b = append(b, '}')
			case 2:
				b = append(b, []byte(" garbage")...)
			default:
				b = append(b, []byte(`{"x":1}`)...)
			}
		case 6: // random bytes
			b = rapid.SliceOfN(rapid.Byte(), 0, 24).Draw(rt, l+".rand")
			if family == "proto" && rapid.IntRange(0, 9).Draw(rt, l+".big") == 0 {
				// a large, well-formed protobuf body: unknown-field records pad it so that a record
				// boundary falls exactly on a power-of-two size, and the real fields come after it
				// (a reader that silently stops at such a size decodes a prefix only)
				size := rapid.SampledFrom([]int{1 << 16, 1 << 20, 4 << 20}).Draw(rt, l+".bigsize")
				b = bigPadded(body, size)
			}
		}
	}
	return b
}

func jsonSwap(rt *rapid.T, b []byte, l string) []byte {
	var m map[string]json.RawMessage
	if err := json.Unmarshal(b, &m); err != nil || len(m) == 0 {
		return append(b, '}')
	}
	keys := sortedKeys(m)
	k := keys[rapid.IntRange(0, len(keys)-1).Draw(rt, l+".key")]
	m[k] = json.RawMessage(rapid.SampledFrom(jsonSwapValues).Draw(rt, l+".val"))
	out, err := json.Marshal(m)
	if err != nil {
		return b
	}
	return out
}

func drawRogue(rt *rapid.T, resp proto.Message, l string) *RogueResp {
	r := &RogueResp{}
	r.Status = rapid.SampledFrom([]int{200, 200, 201, 204, 301, 302, 304, 400, 400, 401, 404, 418, 429, 500, 502, 503, 599}).Draw(rt, l+".status")
	ct := rapid.SampledFrom([]string{"application/json", "application/x-protobuf", "text/html", "", "application/json; charset=utf-8", "text/plain",
		"json", "*", ";charset=utf-8", "proto; v=1", "application/", "/", "a/b/c"}).Draw(rt, l+".ct")
	if ct != "" {
		r.Headers = append(r.Headers, [2]string{"Content-Type", ct})
	}
	if r.Status == 301 || r.Status == 302 {
		r.Headers = append(r.Headers, [2]string{"Location", rapid.SampledFrom([]string{"/elsewhere", "http://sim.test/loop", "", "::bad::"}).Draw(rt, l+".loc")})
	}
	switch rapid.IntRange(0, 7).Draw(rt, l+".body") {
	case 0:
		r.Body = nil
	case 1:
		r.Body, _ = protojson.Marshal(resp)
	case 2:
		r.Body, _ = proto.Marshal(resp)
	case 3:
		r.Body = []byte("<html><body>502 Bad Gateway</body></html>")
	case 4:
		r.Body = []byte(rapid.SampledFrom(garbageBodies).Draw(rt, l+".garbage"))
	case 5:
		r.Body, _ = protojson.Marshal(&sebufhttp.ValidationError{Violations: []*sebufhttp.FieldViolation{{Field: "f", Description: "d"}}})
	case 6:
		r.Body, _ = proto.Marshal(&sebufhttp.Error{Message: "boom"})
	case 7:
		r.Body = rapid.SliceOfN(rapid.Byte(), 0, 40).Draw(rt, l+".rand")
	}
	switch rapid.IntRange(0, 10).Draw(rt, l+".frame") {
	case 10:
		// a lying upstream: absurd Content-Length (values beyond any allocatable size)
		r.Headers = append(r.Headers, [2]string{"Content-Length", rapid.SampledFrom([]string{"9223372036854775807", "4611686018427387904", "9223372036854775000"}).Draw(rt, l+".hugelen")})
	case 0:
		r.BadLength = rapid.IntRange(1, 10).Draw(rt, l+".badlen") // advertises more than is sent
	case 1:
		r.RawBytes = []byte(rapid.SampledFrom([]string{"", "HTTP/1.1 200 OK\r\n", "garbage\r\n\r\n", "HTTP/1.1 200 OK\r\nContent-Length: -1\r\n\r\n", "HTTP/1.1 999\r\n\r\n",
			"HTTP/1.1 200 OK\r\nTransfer-Encoding: chunked\r\n\r\n5\r\nab", "HTTP/1.1 100 Continue\r\n\r\n"}).Draw(rt, l+".raw"))
	}
	return r
}

// ---------- oracles ----------

func (propC11) Check(k *Kernel, cov *Coverage) *Violation {
	switch k.Plan.Mode {
	case "client-faults":
		return checkC11Client(k, cov)
	case "ts-client-faults":
		return checkC11TSClient(k, cov)
	}
	return checkC11Server(k, cov)
}

func connFault(cn *Conn) string {
	if len(cn.faultFired) == 0 {
		return "none"
	}
	return strings.Join(cn.faultFired, "+")
}

func checkC11Server(k *Kernel, cov *Coverage) *Violation {
	mode := k.Plan.Mode
	for _, cn := range k.conns {
		c := cn.call
		rpc := k.W.RPC(c.Op.RPC)
		ct := ""
		if cn.WireHead != nil {
			ct = cn.WireHead.Header.Get("Content-Type")
		}
		fam := ctFamily(ct)
		sig := func(class, extra string) string {
			s := "C11|" + class + "|" + mode + "|fam=" + fam
			if extra != "" {
				s += "|" + extra
			}
			return s
		}
		if cn.Panic != "" {
			return &Violation{Class: "server-panic", Signature: sig("server-panic", panicSite(cn.Panic)), Detail: fmt.Sprintf("op %d %s: handler chain panicked: %s", c.Op.ID, c.Op.RPC, cn.Panic)}
		}
		if cn.accepted && cn.serverDone && cn.status >= 500 {
			return &Violation{Class: "server-5xx", Signature: sig("server-5xx", fmt.Sprintf("status=%d|fault=%s", cn.status, connFault(cn))),
				Detail: fmt.Sprintf("op %d %s: server answered %d (handlers never fail in these runs); fault=%s wire=%s", c.Op.ID, c.Op.RPC, cn.status, connFault(cn), wireLine(cn))}
		}
		if cn.accepted && !cn.serverDone && cn.c2s.dead && c.Op.Server == "go" {
			return &Violation{Class: "server-hang", Signature: sig("server-hang", "fault="+connFault(cn)),
				Detail: fmt.Sprintf("op %d %s: request stream was closed (%s) but the server task never finished", c.Op.ID, c.Op.RPC, connFault(cn))}
		}
		if c.Op.Server != "go" || !cn.accepted {
			continue
		}
		incomplete := cn.c2s.dead && cn.c2s.delivered < cn.c2s.total
		bodyVerb := rpc != nil && rpc.HasBody
		if cn.Dispatched > 0 && incomplete && bodyVerb && cn.ReqBodyLen > 0 {
			return &Violation{Class: "dispatch-from-incomplete-body", Signature: sig("dispatch-from-incomplete-body", "fault="+connFault(cn)),
				Detail: fmt.Sprintf("op %d %s: link delivered %d of %d request bytes (%s) yet the handler ran with %s", c.Op.ID, c.Op.RPC, cn.c2s.delivered, cn.c2s.total, connFault(cn), seenJSON(c, cn))}
		}
		if cn.Dispatched > 1 {
			return &Violation{Class: "double-dispatch", Signature: sig("double-dispatch", ""), Detail: fmt.Sprintf("op %d %s: one connection dispatched %d times", c.Op.ID, c.Op.RPC, cn.Dispatched)}
		}
		// any JSON decoder must reject a body that is not exactly one JSON value
		if mode == "server-garbage" && bodyVerb && c.Op.Raw != nil && !incomplete && fam == "json" && cn.Dispatched > 0 && len(c.Op.Raw.Body) > 0 && !json.Valid(c.Op.Raw.Body) {
			in := "plain"
			if rpc != nil {
				in = annType(rpc.In)
			}
			return &Violation{Class: "dispatch-from-undecodable-body", Signature: sig("dispatch-from-undecodable-body", "invalid-json-text|in="+in),
				Detail: fmt.Sprintf("op %d %s: body %q (content type %q) is not one well-formed JSON value, yet the handler ran with %s", c.Op.ID, c.Op.RPC, truncBytes(c.Op.Raw.Body), ct, seenJSON(c, cn))}
		}
		// garbage mode: judge dispatch against an independent decoder
		if mode == "server-garbage" && bodyVerb && c.Op.Raw != nil && !incomplete && !hasJSONAnnotations(k.W) {
			dec := k.W.newReq(c.Op.RPC)
			var derr error
			body := c.Op.Raw.Body
			switch {
			case len(body) == 0:
				derr = nil // an absent body is the empty message by contract
			case fam == "proto":
				derr = proto.Unmarshal(body, dec)
			default:
				derr = protojson.Unmarshal(body, dec)
			}
			if cn.Dispatched > 0 && derr != nil {
				return &Violation{Class: "dispatch-from-undecodable-body", Signature: sig("dispatch-from-undecodable-body", bodyKind(body)),
					Detail: fmt.Sprintf("op %d %s: body %q (content type %q) does not decode (%v) yet the handler ran with %s", c.Op.ID, c.Op.RPC, truncBytes(body), ct, derr, seenJSON(c, cn))}
			}
			if cn.Dispatched > 0 && derr == nil && len(body) > 0 {
				// the handler-visible message must be the decoded body plus URL-bound fields
				// (URL-bound fields are C02's business: compared with them cleared)
				want := BodyMessage(rpc, dec)
				got := seenOn(c, cn)
				if got != nil {
					got = BodyMessage(rpc, got)
				}
				if got != nil && !proto.Equal(got, want) {
					f := firstDiff(want, got)
					return &Violation{Class: "dispatch-differs-from-body", Signature: sig("dispatch-differs-from-body", fieldShape(k.W, rpc, rpc.In, f)),
						Detail: fmt.Sprintf("op %d %s: body %q decodes to %s but the handler saw %s", c.Op.ID, c.Op.RPC, truncBytes(body), jsonOf(want), jsonOf(got))}
				}
			}
			cov.Tuple(k.W.Name, c.Op.RPC, mode, "fam="+fam, bodyKind(body), fmt.Sprintf("dispatched=%v", cn.Dispatched > 0), fmt.Sprintf("status=%d", cn.status))
		} else {
			if mode == "server-garbage" && bodyVerb && c.Op.Raw != nil && !incomplete && fam == "json" && cn.Dispatched > 0 && rpc != nil {
				if d := annotatedBodyDefect(k.W, rpc.In, c.Op.Raw.Body); d != "" {
					return &Violation{Class: "dispatch-from-undecodable-body", Signature: sig("dispatch-from-undecodable-body", "in="+annType(rpc.In)+"|"+annKind(d)),
						Detail: fmt.Sprintf("op %d %s: %s, yet the handler ran with %s (body %q)", c.Op.ID, c.Op.RPC, d, seenJSON(c, cn), truncBytes(c.Op.Raw.Body))}
				}
				k.Stats.Probe("annotated_body_judged")
			}
			cov.Tuple(k.W.Name, c.Op.RPC, mode, "fam="+fam, connFault(cn), fmt.Sprintf("dispatched=%v", cn.Dispatched > 0), fmt.Sprintf("status=%d", cn.status))
		}
		// a 400 must carry a well-formed ValidationError in the request's content type or JSON
		if cn.serverDone && cn.status == 400 && cn.ReqParsed && !cn.dup && c.Op.Client == "raw" && c.RespErr == nil && c.Returned && len(c.Conns) > 0 && c.Conns[0] == cn {
			if v := wellFormed400(c, fam); v != "" {
				return &Violation{Class: "malformed-400", Signature: sig("malformed-400", ""), Detail: fmt.Sprintf("op %d %s: %s; body=%q", c.Op.ID, c.Op.RPC, v, truncBytes(c.RespBody))}
			}
		}
	}
	// clients with a deadline must have returned
	for _, c := range k.Calls {
		if c.Hung && c.Op.DeadlineMs > 0 {
			return &Violation{Class: "client-hang", Signature: "C11|client-hang|" + mode, Detail: fmt.Sprintf("op %d %s never returned although its context deadline (%d ms) passed", c.Op.ID, c.Op.RPC, c.Op.DeadlineMs)}
		}
		if c.PanicVal != nil {
			return &Violation{Class: "client-panic", Signature: "C11|client-panic|" + mode, Detail: fmt.Sprint(c.PanicVal)}
		}
	}
	return nil
}

func (w *WorldDesc) newReq(key string) proto.Message {
	_, md := w.Method(key)
	return md.NewReq()
}

func hasJSONAnnotations(w *WorldDesc) bool {
	for _, f := range w.Spec().Features {
		if strings.HasPrefix(f, "ann_") {
			return true
		}
	}
	return false
}

func panicSite(p string) string {
	// first generated-code frame
	for _, ln := range strings.Split(p, "\n") {
		ln = strings.TrimSpace(ln)
		if strings.Contains(ln, ".pb.go:") {
			if i := strings.LastIndex(ln, "/"); i >= 0 {
				ln = ln[i+1:]
			}
			if j := strings.Index(ln, ":"); j >= 0 {
				return ln[:j]
			}
			return ln
		}
	}
	first := strings.SplitN(p, "\n", 2)[0]
	if len(first) > 60 {
		first = first[:60]
	}
	return first
}

func wireLine(cn *Conn) string {
	if cn.WireHead == nil {
		return "<unparsed>"
	}
	return cn.WireHead.Verb + " " + cn.WireHead.Target
}

func seenOn(c *CallState, cn *Conn) proto.Message {
	for _, s := range c.Seen {
		if s.ConnID == cn.id {
			return s.Req
		}
	}
	return nil
}

func seenJSON(c *CallState, cn *Conn) string { return jsonOf(seenOn(c, cn)) }

func truncBytes(b []byte) string {
	if len(b) > 200 {
		return string(b[:200]) + "…"
	}
	return string(b)
}

func bodyKind(b []byte) string {
	t := bytes.TrimSpace(b)
	switch {
	case len(b) == 0:
		return "empty"
	case len(t) == 0:
		return "whitespace"
	case t[0] == '{':
		if json.Valid(t) {
			return "json-object"
		}
		return "json-object-broken"
	case t[0] == '[':
		return "json-array"
	case t[0] == '"':
		return "json-string"
	case bytes.Equal(t, []byte("null")):
		return "json-null"
	case json.Valid(t):
		return "json-scalar"
	}
	return "binary"
}

// mergeURLBound overlays the URL-bound fields of the op's original request (the raw
// target was built from it) onto want.
func mergeURLBound(rpc *spec.RPC, c *CallState, want proto.Message) {
	if rpc == nil || len(c.Op.ReqBin) == 0 {
		return
	}
	orig := want.ProtoReflect().New().Interface()
	if err := proto.Unmarshal(c.Op.ReqBin, orig); err != nil {
		return
	}
	om, wm := orig.ProtoReflect(), want.ProtoReflect()
	fds := om.Descriptor().Fields()
	for i := 0; i < fds.Len(); i++ {
		fd := fds.Get(i)
		if rpc.IsURLBound(string(fd.Name())) && om.Has(fd) && !wm.Has(fd) {
			wm.Set(fd, om.Get(fd))
		}
	}
}

func wellFormed400(c *CallState, fam string) string {
	ve := &sebufhttp.ValidationError{}
	rct := c.RespHeader.Get("Content-Type")
	var err error
	if strings.HasPrefix(rct, "application/x-protobuf") {
		err = proto.Unmarshal(c.RespBody, ve)
	} else if strings.HasPrefix(rct, "application/json") {
		err = protojson.Unmarshal(c.RespBody, ve)
	} else {
		return fmt.Sprintf("400 response has content type %q, want JSON or protobuf", rct)
	}
	if err != nil {
		return fmt.Sprintf("400 body does not decode as ValidationError (%s): %v", rct, err)
	}
	if len(ve.Violations) == 0 {
		return "400 ValidationError lists no violation"
	}
	for _, v := range ve.Violations {
		if v.GetField() == "" {
			return "400 ValidationError has a violation without a field"
		}
	}
	return ""
}

func checkC11Client(k *Kernel, cov *Coverage) *Violation {
	for _, c := range k.Calls {
		if c.Op.Client != "go" {
			continue
		}
		ct := effectiveCT(k.Plan, c.Op)
		fk := "none"
		if len(c.Op.Faults) > 0 {
			fk = c.Op.Faults[0].Kind
		}
		srv := c.Op.Server
		sig := func(class, extra string) string {
			s := "C11|" + class + "|client-faults|ct=" + ct + "|server=" + srv + "|fault=" + fk
			if extra != "" {
				s += "|" + extra
			}
			return s
		}
		if c.PanicVal != nil {
			return &Violation{Class: "client-panic", Signature: sig("client-panic", ""), Detail: fmt.Sprintf("op %d %s: %v", c.Op.ID, c.Op.RPC, c.PanicVal)}
		}
		// bounded liveness: with a deadline (context or Client.Timeout) the call returns by D + eps
		d := time.Duration(0)
		if c.Op.DeadlineMs > 0 {
			d = time.Duration(c.Op.DeadlineMs) * time.Millisecond
		}
		if k.Plan.TimeoutMs > 0 {
			t := time.Duration(k.Plan.TimeoutMs) * time.Millisecond
			if d == 0 || t < d {
				d = t
			}
		}
		var first *Conn
		if len(c.Conns) > 0 {
			first = c.Conns[0]
		}
		streamClosed := first != nil && (first.s2c.dead || first.s2c.eofSent)
		cancelled := c.cancelFired
		if !c.Returned {
			if d > 0 || streamClosed || cancelled {
				return &Violation{Class: "client-hang", Signature: sig("client-hang", ""),
					Detail: fmt.Sprintf("op %d %s never returned (deadline=%v streamClosed=%v cancelled=%v)", c.Op.ID, c.Op.RPC, d, streamClosed, cancelled)}
			}
			cov.Tuple(k.W.Name, "client", srv, fk, "blocked-without-deadline")
			continue
		}
		if d > 0 && c.RetAt-c.StartAt > d+50*time.Millisecond {
			return &Violation{Class: "client-late", Signature: sig("client-late", ""),
				Detail: fmt.Sprintf("op %d %s returned after %v, deadline was %v", c.Op.ID, c.Op.RPC, c.RetAt-c.StartAt, d)}
		}
		if c.Err == nil {
			if c.Resp == nil {
				return &Violation{Class: "client-nil-nil", Signature: sig("client-nil-nil", ""), Detail: fmt.Sprintf("op %d %s returned neither a response nor an error", c.Op.ID, c.Op.RPC)}
			}
			// success is only allowed when the complete framed response was delivered
			last := c.Conns[len(c.Conns)-1]
			verb := "POST"
			if r := k.W.RPC(c.Op.RPC); r != nil {
				verb = r.Verb
			}
			complete, wireStatus := last.s2c.responseComplete(verb)
			if !complete {
				return &Violation{Class: "success-from-incomplete-response", Signature: sig("success-from-incomplete-response", ""),
					Detail: fmt.Sprintf("op %d %s: link delivered %d of %d response bytes (%s) yet the client returned success %s", c.Op.ID, c.Op.RPC, last.s2c.delivered, last.s2c.total, connFault(last), jsonOf(c.Resp))}
			}
			if wireStatus >= 400 {
				return &Violation{Class: "success-from-error-status", Signature: sig("success-from-error-status", fmt.Sprintf("status=%d", wireStatus)),
					Detail: fmt.Sprintf("op %d %s: upstream answered %d yet the client returned success", c.Op.ID, c.Op.RPC, wireStatus)}
			}
		}
		if c.Err != nil && len(c.Conns) > 0 {
			// a typed error (violation list / message) is a claim about what the server said: it
			// may only be built from an error response that arrived completely
			var tve *sebufhttp.ValidationError
			var te *sebufhttp.Error
			if errors.As(c.Err, &tve) || errors.As(c.Err, &te) {
				last := c.Conns[len(c.Conns)-1]
				verb := "POST"
				if r := k.W.RPC(c.Op.RPC); r != nil {
					verb = r.Verb
				}
				if last.s2c.total > 0 && framedButShort(last.s2c, verb) {
					return &Violation{Class: "typed-error-from-incomplete-response", Signature: sig("typed-error-from-incomplete-response", ""),
						Detail: fmt.Sprintf("op %d %s: link delivered %d of %d response bytes (%s) yet the client returned the typed error %T %v", c.Op.ID, c.Op.RPC, last.s2c.delivered, last.s2c.total, connFault(last), c.Err, c.Err)}
				}
			}
		}
		out := "err"
		if c.Err == nil {
			out = "ok"
		}
		st := 0
		if first != nil {
			st = first.status
		}
		cov.Tuple(k.W.Name, "client", srv, fk, fmt.Sprintf("status=%d", st), out)
	}
	return nil
}

// Sweep enumerates single faults: every truncation and every reset offset of the
// request body of op 0 (server runs), or of the response (client runs).
func (propC11) Sweep(base *Plan, k *Kernel) []*Plan {
	if len(base.Ops) == 0 || len(k.conns) == 0 {
		return nil
	}
	var out []*Plan
	clone := func() *Plan {
		b, _ := json.Marshal(base)
		p := &Plan{}
		_ = json.Unmarshal(b, p)
		return p
	}
	switch base.Mode {
	case "server-link-faults":
		cn := k.Calls[0].Conns
		if len(cn) == 0 || cn[0].ReqBodyLen == 0 || cn[0].ReqBodyLen > 600 {
			return nil
		}
		for off := 0; off <= cn[0].ReqBodyLen; off++ {
			for _, kind := range []string{"truncate", "reset"} {
				p := clone()
				p.Ops[0].Faults = []Fault{{Kind: kind, Dir: "req", At: off}}
				out = append(out, p)
			}
		}
	case "client-faults":
		cn := k.Calls[0].Conns
		if len(cn) == 0 || cn[0].s2c.total == 0 || cn[0].s2c.total > 900 {
			return nil
		}
		bodyLen := cn[0].s2c.total - cn[0].s2c.headLen
		for off := 0; off <= bodyLen; off++ {
			for _, kind := range []string{"truncate", "reset"} {
				p := clone()
				p.Ops[0].Faults = []Fault{{Kind: kind, Dir: "resp", At: off}}
				out = append(out, p)
			}
		}
	}
	return out
}

// annotatedBodyDefect judges a JSON body for a request type that carries JSON-mapping
// annotations (the generator's dedicated Ann* types) with per-annotation well-formedness
// predicates: it returns a description when a top-level annotated field holds a value
// whose JSON *type* (or, for strings, alphabet) cannot possibly be decoded under the
// documented mapping. It is deliberately narrow: anything debatable returns "".
func annotatedBodyDefect(w *WorldDesc, msgFQ string, body []byte) string {
	sm, _ := w.Spec().FindMessage(msgFQ)
	if sm == nil || !strings.HasPrefix(sm.Name, "Ann") {
		return ""
	}
	var obj map[string]json.RawMessage
	if err := json.Unmarshal(body, &obj); err != nil {
		return ""
	}
	for _, f := range sm.Fields {
		raw, ok := obj[specJSONName(f.Name)]
		if !ok {
			continue
		}
		t := bytes.TrimSpace(raw)
		if len(t) == 0 || t[0] == 'n' {
			continue
		}
		kind := ""
		switch t[0] {
		case '{':
			kind = "object"
		case '[':
			kind = "array"
		case '"':
			kind = "string"
		case 't', 'f':
			kind = "bool"
		default:
			kind = "number"
		}
		str := ""
		if kind == "string" {
			_ = json.Unmarshal(t, &str)
		}
		// "possibly a number": protojson itself reads a number token from a string and does not
		// insist on end of input ("105023:" is accepted as 105023 for a plain int64 field), so
		// only strings with no leading number token at all count as undecodable
		isInt := func(s string) bool {
			t := strings.TrimPrefix(s, "-")
			return t != "" && t[0] >= '0' && t[0] <= '9'
		}
		bad := func(what string) string {
			return fmt.Sprintf("field %s.%s (%s) holds JSON %s %s", sm.Name, f.Name, what, kind, truncBytes(t))
		}
		switch {
		case f.Card != "" && f.Card != "optional":
			continue
		case f.Int64Encoding == "NUMBER":
			if kind == "object" || kind == "array" || kind == "bool" || (kind == "string" && !isInt(str)) {
				return bad("int64_encoding=NUMBER")
			}
			if kind == "number" {
				// a 64-bit integer field: the number must be an integer (any spelling: 1e3 and
				// 1.0 are integers) inside the range of the field's type
				if r, ok := new(big.Rat).SetString(string(t)); ok {
					lo, hi := big.NewInt(math.MinInt64), big.NewInt(math.MaxInt64)
					if f.Kind == "uint64" || f.Kind == "fixed64" {
						lo, hi = big.NewInt(0), new(big.Int).SetUint64(math.MaxUint64)
					}
					if !r.IsInt() || r.Num().Cmp(lo) < 0 || r.Num().Cmp(hi) > 0 {
						return bad("int64_encoding=NUMBER not an integer in range")
					}
				}
			}
		case f.TimestampFormat == "UNIX_SECONDS" || f.TimestampFormat == "UNIX_MILLIS":
			// (a standard RFC 3339 string is the un-annotated proto3 JSON form: accepting it is lenient, not undecodable)
			_, rfcErr := time.Parse(time.RFC3339Nano, str)
			if kind == "object" || kind == "array" || kind == "bool" || (kind == "string" && !isInt(str) && rfcErr != nil) {
				return bad("timestamp_format=" + f.TimestampFormat)
			}
			if kind == "number" {
				// a Timestamp covers the years 1..9999: an integer instant outside that range has no value
				if n, err := strconv.ParseInt(string(t), 10, 64); err == nil {
					lo, hi := int64(-62135596800), int64(253402300799)
					if f.TimestampFormat == "UNIX_MILLIS" {
						lo, hi = lo*1000, hi*1000+999
					}
					if n < lo || n > hi {
						return bad("timestamp_format=" + f.TimestampFormat + " out of range")
					}
				}
			}
		case f.TimestampFormat == "DATE" || f.TimestampFormat == "RFC3339":
			if kind != "string" {
				return bad("timestamp_format=" + f.TimestampFormat)
			}
			if len(str) < 10 || str[4] != '-' || str[7] != '-' {
				return bad("timestamp_format=" + f.TimestampFormat)
			}
		case f.BytesEncoding != "":
			if kind != "string" {
				return bad("bytes_encoding=" + f.BytesEncoding)
			}
			for _, c := range str {
				okc := (c >= 'A' && c <= 'Z') || (c >= 'a' && c <= 'z') || (c >= '0' && c <= '9') || c == '+' || c == '/' || c == '-' || c == '_' || c == '='
				if f.BytesEncoding == "HEX" {
					okc = (c >= '0' && c <= '9') || (c >= 'a' && c <= 'f') || (c >= 'A' && c <= 'F')
				}
				if !okc {
					return bad("bytes_encoding=" + f.BytesEncoding)
				}
			}
			if f.BytesEncoding == "HEX" && len(str)%2 == 1 {
				return bad("bytes_encoding=HEX")
			}
		case f.EnumEncoding == "NUMBER":
			if kind == "object" || kind == "array" || kind == "bool" {
				return bad("enum_encoding=NUMBER")
			}
		case f.Kind == "enum":
			if kind == "object" || kind == "array" || kind == "bool" {
				return bad("enum")
			}
		}
	}
	return ""
}

// specJSONName is protoc's lowerCamel JSON name of a proto field name.
func specJSONName(s string) string {
	var b strings.Builder
	up := false
	for _, r := range s {
		if r == '_' {
			up = true
			continue
		}
		if up && r >= 'a' && r <= 'z' {
			r = r - 'a' + 'A'
		}
		up = false
		b.WriteRune(r)
	}
	return b.String()
}

func annKind(d string) string {
	i, j := strings.Index(d, "("), strings.Index(d, ")")
	if i >= 0 && j > i {
		return d[i+1 : j]
	}
	return ""
}

// bigPadded returns pad || body where pad consists of 16-byte unknown-field records
// (field 1000, length-delimited, 13 payload bytes) filling exactly size bytes.
func bigPadded(body []byte, size int) []byte {
	rec := append([]byte{0xC2, 0x3E, 13}, []byte("paddingpaddin")...) // tag(1000,2)=0x3EC2 varint, len 13
	out := make([]byte, 0, size+len(body))
	for len(out)+len(rec) <= size {
		out = append(out, rec...)
	}
	return append(out, body...)
}

// framedButShort: the delivered bytes hold a complete response head whose framing
// (Content-Length or chunked encoding) announces more body than arrived. Only then can a
// client know that the body is incomplete; a close-delimited body that is cut short looks
// complete to every client.
func framedButShort(l *link, method string) bool {
	d := l.sent
	if l.delivered < len(d) {
		d = d[:l.delivered]
	}
	req, _ := http.NewRequest(method, "http://"+baseHost+"/", nil)
	resp, err := http.ReadResponse(bufio.NewReader(bytes.NewReader(d)), req)
	if err != nil {
		return false
	}
	if resp.ContentLength < 0 && len(resp.TransferEncoding) == 0 {
		return false
	}
	_, err = io.Copy(io.Discard, resp.Body)
	return err != nil
}

// checkC11TSClient: for any status, headers and body a peer may return, and for any way the
// response may fail to arrive, a call through the generated TS client settles (resolves with a
// value or rejects with an error), never brings the process down, never hangs once its fetch
// has failed or its time limit has passed, and never reports success for a response that did
// not arrive completely, was not a 2xx, or whose body is not JSON at all.
func checkC11TSClient(k *Kernel, cov *Coverage) *Violation {
	if len(k.TSCrashes) > 0 {
		return &Violation{Class: "ts-process-crash", Signature: "C11|ts-process-crash|ts-client-faults",
			Detail: "the Node process running the generated TS client reported an uncaught exception / unhandled rejection: " + strings.Join(k.TSCrashes, "; ")}
	}
	for _, c := range k.Calls {
		if c.Op.Client != "ts" {
			continue
		}
		fk := "none"
		if len(c.Op.Faults) > 0 {
			fk = c.Op.Faults[0].Kind
		}
		srv := c.Op.Server
		sig := func(class, extra string) string {
			s := "C11|" + class + "|ts-client-faults|server=" + srv + "|fault=" + fk
			if extra != "" {
				s += "|" + extra
			}
			return s
		}
		var last *Conn
		if len(c.Conns) > 0 {
			last = c.Conns[len(c.Conns)-1]
		}
		if !c.Returned {
			// the injected fetch settles when the response has arrived, the link has failed, the
			// time limit has expired or the signal was aborted; after that the call must settle
			if c.Op.DeadlineMs > 0 || c.cancelFired || (last != nil && (last.s2c.dead || last.s2c.eofSent)) {
				return &Violation{Class: "client-hang", Signature: sig("client-hang", ""),
					Detail: fmt.Sprintf("op %d %s: the TS client call never settled (deadline=%dms cancelled=%v, fetch issued=%v)", c.Op.ID, c.Op.RPC, c.Op.DeadlineMs, c.cancelFired, last != nil)}
			}
			cov.Tuple(k.W.Name, "ts-client", srv, fk, "blocked-without-deadline")
			continue
		}
		d := time.Duration(c.Op.DeadlineMs) * time.Millisecond
		if d > 0 && c.RetAt-c.StartAt > d+50*time.Millisecond {
			return &Violation{Class: "client-late", Signature: sig("client-late", ""),
				Detail: fmt.Sprintf("op %d %s settled after %v, the time limit was %v", c.Op.ID, c.Op.RPC, c.RetAt-c.StartAt, d)}
		}
		resolved := c.Err == nil && c.TSError == nil
		st := 0
		if resolved {
			verb := "POST"
			if r := k.W.RPC(c.Op.RPC); r != nil {
				verb = r.Verb
			}
			if last == nil {
				return &Violation{Class: "success-without-request", Signature: sig("success-without-request", ""),
					Detail: fmt.Sprintf("op %d %s resolved with %s without having issued a fetch", c.Op.ID, c.Op.RPC, truncBytes(c.TSValue))}
			}
			complete, wireStatus := last.s2c.responseComplete(verb)
			st = wireStatus
			if !complete {
				return &Violation{Class: "success-from-incomplete-response", Signature: sig("success-from-incomplete-response", ""),
					Detail: fmt.Sprintf("op %d %s: link delivered %d of %d response bytes (%s) yet the TS client resolved with %s", c.Op.ID, c.Op.RPC, last.s2c.delivered, last.s2c.total, connFault(last), truncBytes(c.TSValue))}
			}
			if wireStatus < 200 || wireStatus > 299 {
				return &Violation{Class: "success-from-error-status", Signature: sig("success-from-error-status", fmt.Sprintf("status=%d", wireStatus)),
					Detail: fmt.Sprintf("op %d %s: peer answered %d yet the TS client resolved with %s", c.Op.ID, c.Op.RPC, wireStatus, truncBytes(c.TSValue))}
			}
			// (an empty 2xx body gives no verdict: reading it as the empty message, as the Go client
			// does, is a response too)
			if _, _, body, err := parseResponse(last.s2c.sent, verb); err == nil && len(bytes.TrimSpace(body)) > 0 && !json.Valid(body) {
				return &Violation{Class: "success-from-undecodable-response", Signature: sig("success-from-undecodable-response", ""),
					Detail: fmt.Sprintf("op %d %s: response body %q is not JSON yet the TS client resolved with %s", c.Op.ID, c.Op.RPC, truncBytes(body), truncBytes(c.TSValue))}
			}
		} else if last != nil {
			st = last.status
		}
		cov.Tuple(k.W.Name, "ts-client", srv, fk, fmt.Sprintf("status=%d", st), fmt.Sprintf("resolved=%v", resolved))
	}
	return nil
}
