package simrt

import (
	"unicode/utf8"
	"bytes"
	"errors"
	"fmt"
	"sort"
	"strings"

	protovalidate "buf.build/go/protovalidate"
	sebufhttp "github.com/SebastienMelki/sebuf/http"
	"google.golang.org/protobuf/encoding/protojson"
	"google.golang.org/protobuf/proto"
	"google.golang.org/protobuf/reflect/protoreflect"
	"pgregory.net/rapid"
)

// C10: errors surface with the documented status, body, format and client-side type.
type propC10 struct{}

func init() { RegisterProperty(propC10{}) }

func (propC10) ID() string      { return "C10" }
func (propC10) Modes() []string { return []string{"errors", "upstream-errors"} }

var errorSources = []string{"header", "url", "body", "rule", "err-plain", "err-sebuf", "err-validation", "err-custom", "err-wrapped-custom"}

// drawUpstreamErrors: the generated clients against a peer (gateway, proxy, another server)
// that answers with an error status and a body that may or may not be what the generated
// server would send. "The clients turn a 400 into a validation error carrying the same
// violations and any other failure into an error carrying the same status and message or
// body" holds for whatever the body is.
func drawUpstreamErrors(rt *rapid.T, w *WorldDesc) *Plan {
	p := &Plan{Mode: "upstream-errors"}
	methods := w.AllMethods()
	if len(methods) == 0 {
		return p
	}
	p.Clients = [][]Opt{{{Kind: "contentType", Value: "application/json"}}}
	nOps := rapid.IntRange(1, 3).Draw(rt, "nOps")
	for i := 0; i < nOps; i++ {
		l := fmt.Sprintf("op%d", i)
		md := methods[rapid.IntRange(0, len(methods)-1).Draw(rt, l+".rpc")]
		op := &Op{ID: i, RPC: md.Key, Server: "rogue", Client: "go"}
		if globalBridge != nil && rapid.Bool().Draw(rt, l+".tsclient") {
			op.Client = "ts"
		}
		req := drawValidReq(rt, w, md, l+".req")
		if op.Client == "ts" {
			scrubNonFinite(req.ProtoReflect(), 0)
		}
		if rpc := w.RPC(md.Key); rpc != nil {
			for _, h := range ValidHeaders(rpc, i) {
				op.Opts = append(op.Opts, Opt{Kind: "header", Key: h[0], Value: h[1]})
			}
		}
		status := rapid.SampledFrom([]int{400, 400, 400, 401, 404, 409, 422, 429, 500, 502, 503}).Draw(rt, l+".status")
		ve := &sebufhttp.ValidationError{Violations: []*sebufhttp.FieldViolation{{Field: "user.email", Description: "must be a valid e-mail é"}, {Field: "X-Tenant", Description: "required header is missing"}}}
		veJSON, _ := protojson.Marshal(ve)
		ct := "application/json"
		var body []byte
		kind := rapid.IntRange(0, 7).Draw(rt, l+".kind")
		switch kind {
		case 0:
			body = veJSON
		case 1:
			body, _ = protojson.Marshal(&sebufhttp.Error{Message: rapid.SampledFrom([]string{"upstream unavailable", "quota é exceeded", `say "hi"`}).Draw(rt, l+".msg")})
		case 2:
			body = veJSON[:rapid.IntRange(1, len(veJSON)-1).Draw(rt, l+".cut")] // cut by a byte limit
		case 3:
			body = nil
		case 4:
			body = []byte("null")
		case 5:
			body = []byte("<html><body><h1>502 Bad Gateway</h1></body></html>")
			ct = rapid.SampledFrom([]string{"text/html", "application/json"}).Draw(rt, l+".htmlct")
		case 6:
			body = []byte(rapid.SampledFrom([]string{"[]", "[1,2]"}).Draw(rt, l+".arr"))
		case 7:
			body = []byte(rapid.SampledFrom([]string{`"just a string"`, "42", "true"}).Draw(rt, l+".scalar"))
		}
		op.Rogue = &RogueResp{Status: status, Headers: [][2]string{{"Content-Type", ct}}, Body: body}
		op.Notes = append(op.Notes, fmt.Sprintf("up=%d", kind))
		op.ReqBin = mustMarshal(req)
		op.ReqJSON = jsonOf(req)
		op.RespBin = mustMarshal(md.NewResp())
		op.DeadlineMs = 3600000 // virtual time is free: a slowly delivered request must not run into the caller's own deadline
		p.Ops = append(p.Ops, op)
	}
	p.Schedule = drawSchedule(rt, 32)
	// the JSON media type as gateways, frameworks and header-setting hooks spell it (parameters,
	// letter case); drawn last so that the rest of a plan is what it was before
	for i, op := range p.Ops {
		if op.Rogue != nil && len(op.Rogue.Headers) > 0 && op.Rogue.Headers[0][1] == "application/json" {
			op.Rogue.Headers[0][1] = rapid.SampledFrom([]string{"application/json", "application/json", "application/json; charset=utf-8", "application/json;charset=UTF-8", "Application/JSON"}).Draw(rt, fmt.Sprintf("op%d.jsonct", i))
		}
	}
	return p
}

func checkUpstreamErrors(k *Kernel, cov *Coverage) *Violation {
	for _, c := range k.Calls {
		up := noteOf(c.Op, "up")
		if up == "" || c.Op.Rogue == nil || !c.Returned {
			continue
		}
		status, body := c.Op.Rogue.Status, string(c.Op.Rogue.Body)
		sig := func(class string) string {
			return fmt.Sprintf("C10|%s|%s>upstream|status=%d|body-kind=%s", class, c.Op.Client, status, up)
		}
		if c.PanicVal != nil {
			return &Violation{Class: "client-panic", Signature: sig("client-panic"), Detail: fmt.Sprint(c.PanicVal)}
		}
		if c.Err == nil {
			return &Violation{Class: "client-swallowed-error", Signature: sig("client-swallowed-error"),
				Detail: fmt.Sprintf("op %d: upstream answered %d %q, the %s client returned success", c.Op.ID, status, truncBytes(c.Op.Rogue.Body), c.Op.Client)}
		}
		wantViolations := ""
		if up == "0" {
			ve := &sebufhttp.ValidationError{}
			_ = protojson.Unmarshal(c.Op.Rogue.Body, ve)
			wantViolations = strings.Join(violationSet(ve), "|")
		}
		var cve *sebufhttp.ValidationError
		switch c.Op.Client {
		case "go":
			switch {
			case up == "0" && status == 400:
				if !errors.As(c.Err, &cve) || strings.Join(violationSet(cve), "|") != wantViolations {
					return &Violation{Class: "client-400-not-validation-error", Signature: sig("client-400-not-validation-error"),
						Detail: fmt.Sprintf("op %d: 400 with violations [%s], Go client returned %T %v", c.Op.ID, wantViolations, c.Err, c.Err)}
				}
			case up == "3":
				// empty body: nothing but the status could be carried; no verdict on its form
			case up == "1":
				var ce *sebufhttp.Error
				want := &sebufhttp.Error{}
				_ = protojson.Unmarshal(c.Op.Rogue.Body, want)
				if errors.As(c.Err, &ce) {
					if ce.GetMessage() != want.GetMessage() {
						return &Violation{Class: "client-message-differs", Signature: sig("client-message-differs"),
							Detail: fmt.Sprintf("op %d: upstream sent message %q, client error carries %q", c.Op.ID, want.GetMessage(), ce.GetMessage())}
					}
				} else if !strings.Contains(c.Err.Error(), fmt.Sprint(status)) {
					return &Violation{Class: "client-error-loses-status", Signature: sig("client-error-loses-status"),
						Detail: fmt.Sprintf("op %d: upstream answered %d %q, Go client returned %T %q", c.Op.ID, status, body, c.Err, c.Err.Error())}
				}
			default:
				if !strings.Contains(c.Err.Error(), fmt.Sprint(status)) {
					return &Violation{Class: "client-error-loses-status", Signature: sig("client-error-loses-status"),
						Detail: fmt.Sprintf("op %d: upstream answered %d %q, Go client returned %T %q (neither status nor body)", c.Op.ID, status, truncBytes(c.Op.Rogue.Body), c.Err, c.Err.Error())}
				}
			}
		case "ts":
			if c.TSError == nil {
				continue
			}
			kind := fmt.Sprint(c.TSError["kind"])
			if up == "0" && status == 400 {
				if kind != "validation" || !errors.As(c.Err, &cve) || strings.Join(violationSet(cve), "|") != wantViolations {
					return &Violation{Class: "client-400-not-validation-error", Signature: sig("client-400-not-validation-error"),
						Detail: fmt.Sprintf("op %d: 400 with violations [%s], TS client rejected with %v", c.Op.ID, wantViolations, c.TSError)}
				}
			} else if kind != "api" || numInt(c.TSError["statusCode"]) != status || !sameText(fmt.Sprint(c.TSError["body"]), body) {
				return &Violation{Class: "client-error-loses-status", Signature: sig("client-error-loses-status"),
					Detail: fmt.Sprintf("op %d: upstream answered %d %q, TS client rejected with %v (want an ApiError carrying status and body)", c.Op.ID, status, truncBytes(c.Op.Rogue.Body), c.TSError)}
			}
		}
		cov.Tuple(k.W.Name, "upstream", c.Op.Client, fmt.Sprintf("status=%d", status), "kind="+up)
	}
	return nil
}

func (propC10) Draw(rt *rapid.T, w *WorldDesc, mode string) *Plan {
	if mode == "upstream-errors" {
		return drawUpstreamErrors(rt, w)
	}
	p := &Plan{}
	var methods []*MethodDesc
	for _, m := range w.AllMethods() {
		if r := w.RPC(m.Key); r != nil && r.PathKnown {
			methods = append(methods, m)
		}
	}
	if len(methods) == 0 {
		return p
	}
	// hook behaviour
	switch rapid.IntRange(0, 6).Draw(rt, "hook") {
	case 0, 1:
		// none
	case 2:
		p.Hook = &HookPlan{Present: true} // returns nil
	case 3:
		p.Hook = &HookPlan{Present: true, ReturnMsg: "error", MsgText: "from hook é"}
	case 4:
		p.Hook = &HookPlan{Present: true, Status: rapid.SampledFrom([]int{418, 422, 503, 409}).Draw(rt, "hook.status"), ReturnMsg: rapid.SampledFrom([]string{"", "error"}).Draw(rt, "hook.msg"), MsgText: "teapot"}
	case 5:
		p.Hook = &HookPlan{Present: true, Headers: [][2]string{{"X-Hook", "yes"}, {"Retry-After", "7"}}}
		if rapid.Bool().Draw(rt, "hook.selective") {
			// the documented pattern: a status for some errors only (e.g. 404 for NotFoundError)
			p.Hook.Status = rapid.SampledFrom([]int{404, 409, 422}).Draw(rt, "hook.selstatus")
			p.Hook.StatusOnlyFor = rapid.SampledFrom([][]string{{"err-custom"}, {"err-custom", "err-wrapped-custom"}, {"err-plain"}, {"header", "url", "body", "rule"}}).Draw(rt, "hook.selfor")
		}
	case 6:
		p.Hook = &HookPlan{Present: true, WriteBody: "hook wrote this", Status: rapid.SampledFrom([]int{0, 451}).Draw(rt, "hook.wstatus"),
			WriteVia: rapid.SampledFrom([]string{"", "string", "copy"}).Draw(rt, "hook.wvia")}
	}
	if p.Hook != nil && rapid.IntRange(0, 2).Draw(rt, "hook.scope") == 0 {
		// two registrations with different options in one process: only some services get the hook
		var svcs []string
		for _, f := range w.Spec().Files {
			for _, s := range f.Services {
				svcs = append(svcs, s.Name)
			}
		}
		if len(svcs) > 1 {
			keep := rapid.IntRange(0, len(svcs)-1).Draw(rt, "hook.svc")
			p.Hook.Services = []string{svcs[keep]}
		}
	}
	// a deadline middleware in front of the routes: a handler that fails after the deadline
	// has passed (the caller still waiting) owes the caller the same error response
	if rapid.IntRange(0, 3).Draw(rt, "srvDeadline") == 0 {
		p.ServerDeadlineMs = 100
	}
	nOps := rapid.IntRange(1, 4).Draw(rt, "nOps")
	p.Sequential = rapid.Bool().Draw(rt, "sequential")
	ctClient := rapid.SampledFrom([]string{"application/json", "application/x-protobuf", "application/octet-stream"}).Draw(rt, "clientCT")
	p.Clients = [][]Opt{{{Kind: "contentType", Value: ctClient}}}
	for i := 0; i < nOps; i++ {
		l := fmt.Sprintf("op%d", i)
		md := methods[rapid.IntRange(0, len(methods)-1).Draw(rt, l+".rpc")]
		rpc := w.RPC(md.Key)
		op := &Op{ID: i, RPC: md.Key, Server: "go"}
		if p.Hook == nil {
			op.Server = drawServer(rt, l+".server")
		}
		src := rapid.SampledFrom(errorSources).Draw(rt, l+".source")
		useRaw := rapid.Bool().Draw(rt, l+".raw")
		useTSClient := !useRaw && globalBridge != nil && ctClient == "application/json" && rapid.Bool().Draw(rt, l+".tsclient")
		req := drawValidReq(rt, w, md, l+".req")
		if op.Server == "ts" || useTSClient {
			scrubNonFinite(req.ProtoReflect(), 0)
		}
		if op.Server == "ts" {
			switch src {
			case "err-custom", "err-wrapped-custom", "err-sebuf":
				src = "err-plain"
			case "rule":
				src = "err-validation"
			}
		}
		resp := md.NewResp()
		op.RespBin = mustMarshal(resp)
		ct := ctClient
		if op.Server == "ts" {
			ct = "application/json"
		}
		hdrs := ValidHeaders(rpc, i)
		var raw *RawReq
		mkRaw := func() {
			raw, _ = ValidRaw(rpc, req, ct, hdrs)
		}
		switch src {
		case "header":
			var reqd []int
			for hi, h := range rpc.Headers {
				if h.Required {
					reqd = append(reqd, hi)
				}
			}
			if len(reqd) == 0 {
				src = "err-plain"
				break
			}
			drop := reqd[rapid.IntRange(0, len(reqd)-1).Draw(rt, l+".drop")]
			hdrs = append(append([][2]string{}, hdrs[:drop]...), hdrs[drop+1:]...)
			op.Notes = append(op.Notes, "field="+rpc.Headers[drop].Name)
			useRaw = true
		case "url":
			names := append(append([]string{}, rpc.PathVars...), queryFields(rpc)...)
			ok := false
			if len(names) > 0 {
				f := names[rapid.IntRange(0, len(names)-1).Draw(rt, l+".badfield")]
				fd := req.ProtoReflect().Descriptor().Fields().ByName(protoreflect.Name(f))
				if bad, has := badValueFor(rt, fd, l+".badval"); has && !fd.IsList() {
					mkRaw()
					if raw != nil {
						raw.Target = replaceURLValue(rpc, raw.Target, req, f, bad)
						op.Notes = append(op.Notes, "field="+f)
						ok = true
					}
				}
			}
			if !ok {
				src = "err-plain"
				raw = nil
			}
			useRaw = true
		case "body":
			if !rpc.HasBody {
				src = "err-sebuf"
				break
			}
			mkRaw()
			if raw != nil {
				raw.Body = []byte(rapid.SampledFrom([]string{"{", `{"a":`, "\x0a\xff\xff\xff\xff\x0f", "[1,2", "nul"}).Draw(rt, l+".garbage"))
				if ctFamily(ct) == "proto" {
					raw.Body = []byte("\x0a\xff\xff\xff\xff\x0f")
				}
				op.Notes = append(op.Notes, "field=body")
			}
			useRaw = true
		case "rule":
			if !breakRule(w, req) {
				src = "err-validation"
			} else {
				// possibly several violations in one request
				for extra := rapid.IntRange(0, 2).Draw(rt, l+".morerules"); extra > 0; extra-- {
					breakAnotherRule(w, req)
				}
			}
		}
		op.App.Kind = "respond"
		switch src {
		case "err-plain":
			op.App = AppBehaviour{Kind: "err-plain", Text: rapid.SampledFrom([]string{"boom", "quota exceeded é", "x: y: z", "", `say "hi"`, `back\\slash`, "line\nbreak", `","x":"y`, "tab\there"}).Draw(rt, l+".text")}
		case "err-sebuf":
			op.App = AppBehaviour{Kind: "err-sebuf", Text: rapid.SampledFrom([]string{"not allowed", "日本語", "a\"b"}).Draw(rt, l+".text")}
		case "err-validation":
			op.App = AppBehaviour{Kind: "err-validation", Text: "must be positive", Fields: []string{"amount", "items.qty"}}
		case "err-custom", "err-wrapped-custom":
			names := sortedKeys(w.ErrorTypes)
			if len(names) == 0 {
				op.App = AppBehaviour{Kind: "err-plain", Text: "no custom error type in this world"}
				src = "err-plain"
				break
			}
			n := names[rapid.IntRange(0, len(names)-1).Draw(rt, l+".custom")]
			m := NewFilled(rt, w.ErrorTypes[n], l+".customval", nil)
			op.App = AppBehaviour{Kind: src, Custom: n, Bin: mustMarshal(m), Text: "wrapping layer"}
		}
		if p.ServerDeadlineMs > 0 && strings.HasPrefix(src, "err-") && rapid.Bool().Draw(rt, l+".late") {
			op.App.DelayMs = p.ServerDeadlineMs + 50 // the handler fails after the middleware's deadline
			op.Notes = append(op.Notes, "late=1")
		}
		op.Notes = append(op.Notes, "source="+src)
		if useRaw {
			if raw == nil {
				mkRaw()
			}
			if raw == nil {
				continue
			}
			if src == "header" {
				// rebuild with the reduced header set
				raw, _ = ValidRaw(rpc, req, ct, hdrs)
			}
			// media-type parameters do not change the codec family
			if rapid.IntRange(0, 2).Draw(rt, l+".ctparam") == 0 {
				for hi := range raw.Headers {
					if strings.EqualFold(raw.Headers[hi][0], "Content-Type") {
						switch ctFamily(raw.Headers[hi][1]) {
						case "proto":
							raw.Headers[hi][1] = rapid.SampledFrom([]string{"application/x-protobuf; proto=sim.v1.Req", "application/octet-stream; boundary=x", "application/x-protobuf;charset=utf-8"}).Draw(rt, l+".ctparamv")
						default:
							raw.Headers[hi][1] = rapid.SampledFrom([]string{"application/json; charset=utf-8", "application/json;charset=UTF-8"}).Draw(rt, l+".ctparamv")
						}
					}
				}
			}
			op.Client = "raw"
			op.Raw = raw
		} else {
			op.Client = "go"
			if useTSClient {
				op.Client = "ts"
			}
			if op.Server == "ts" && op.Client == "go" && ctClient != "application/json" {
				op.Opts = append(op.Opts, Opt{Kind: "contentType", Value: "application/json"})
			}
			for _, h := range hdrs {
				op.Opts = append(op.Opts, Opt{Kind: "header", Key: h[0], Value: h[1]})
			}
		}
		op.ReqBin = mustMarshal(req)
		op.ReqJSON = jsonOf(req)
		op.ReqChunks = drawChunks(rt, l+".reqChunks")
		op.DeadlineMs = 3600000 // virtual time is free: a slowly delivered request must not run into the caller's own deadline
		p.Ops = append(p.Ops, op)
	}
	p.Schedule = drawSchedule(rt, 32)
	return p
}

// breakRule makes req violate one declared rule; reports whether it could.
func breakRule(w *WorldDesc, req proto.Message) bool {
	return breakRuleIn(w, req.ProtoReflect(), 0)
}

func breakRuleIn(w *WorldDesc, m protoreflect.Message, depth int) bool {
	if depth > 4 {
		return false
	}
	sm, _ := w.Spec().FindMessage("." + string(m.Descriptor().FullName()))
	if sm == nil {
		return false
	}
	fds := m.Descriptor().Fields()
	for i := 0; i < fds.Len(); i++ {
		fd := fds.Get(i)
		sf := sm.Field(string(fd.Name()))
		if sf == nil {
			continue
		}
		if r := sf.Rules; r != nil {
			switch {
			case r.Required && fd.Kind() == protoreflect.MessageKind && !fd.IsList() && !fd.IsMap():
				m.Clear(fd)
				return true
			case r.MinLen != nil && fd.Kind() == protoreflect.StringKind && sf.Card == "":
				m.Set(fd, protoreflect.ValueOfString(""))
				return true
			case r.MaxLen != nil && fd.Kind() == protoreflect.StringKind && sf.Card == "":
				m.Set(fd, protoreflect.ValueOfString(strings.Repeat("z", int(*r.MaxLen)+3)))
				return true
			case len(r.In) > 0 && fd.Kind() == protoreflect.StringKind && sf.Card == "":
				m.Set(fd, protoreflect.ValueOfString("definitely-not-in-list"))
				return true
			case r.Gt != nil && sf.Card == "":
				setInt(m, fd, *r.Gt)
				return true
			case r.Gte != nil && sf.Card == "":
				setInt(m, fd, *r.Gte-1)
				return true
			case r.Lt != nil && sf.Card == "":
				setInt(m, fd, *r.Lt)
				return true
			case r.MaxItems != nil && fd.IsList():
				l := m.Mutable(fd).List()
				for uint64(l.Len()) <= *r.MaxItems {
					if fd.Kind() == protoreflect.MessageKind {
						l.Append(l.NewElement())
					} else {
						l.Append(nonZeroValue(fd))
					}
				}
				return true
			case r.MinItems != nil && fd.IsList():
				m.Clear(fd)
				return true
			}
		}
		// descend into set message fields (nested / repeated paths)
		if fd.Kind() == protoreflect.MessageKind && !fd.IsMap() {
			if fd.IsList() {
				l := m.Mutable(fd).List()
				if l.Len() == 0 && fd.Message().FullName() != "google.protobuf.Timestamp" {
					l.Append(l.NewElement())
				}
				if l.Len() > 0 && breakRuleIn(w, l.Get(0).Message(), depth+1) {
					return true
				}
			} else if fd.Message().FullName() != "google.protobuf.Timestamp" {
				if breakRuleIn(w, m.Mutable(fd).Message(), depth+1) {
					return true
				}
			}
		}
	}
	return false
}

func setInt(m protoreflect.Message, fd protoreflect.FieldDescriptor, v int64) {
	if fd.Kind() == protoreflect.Int32Kind {
		m.Set(fd, protoreflect.ValueOfInt32(int32(v)))
	} else {
		m.Set(fd, protoreflect.ValueOfInt64(v))
	}
}

func violationSet(ve *sebufhttp.ValidationError) []string {
	var out []string
	for _, v := range ve.GetViolations() {
		out = append(out, v.GetField()+"="+v.GetDescription())
	}
	sort.Strings(out)
	return out
}

func violationFields(ve *sebufhttp.ValidationError) []string {
	var out []string
	for _, v := range ve.GetViolations() {
		out = append(out, v.GetField())
	}
	sort.Strings(out)
	return out
}

// expectedRuleFields computes the dotted proto field paths the stub validator reports.
func expectedRuleFields(req proto.Message) []string {
	err := stubValidator.Validate(req)
	var ve *protovalidate.ValidationError
	if !errors.As(err, &ve) {
		return nil
	}
	var out []string
	for _, v := range ve.Violations {
		var parts []string
		for _, e := range v.Proto.GetField().GetElements() {
			parts = append(parts, e.GetFieldName())
		}
		out = append(out, strings.Join(parts, "."))
	}
	sort.Strings(out)
	return out
}

func (propC10) Check(k *Kernel, cov *Coverage) *Violation {
	if k.Plan.Mode == "upstream-errors" {
		return checkUpstreamErrors(k, cov)
	}
	hp := k.Plan.Hook
	for _, c := range k.Calls {
		// the hook answers for the services it was registered with, and only for those
		hooked := hp.AppliesTo(strings.SplitN(c.Op.RPC, "/", 2)[0])
		src := noteOf(c.Op, "source")
		if src == "" || len(c.Conns) == 0 {
			continue
		}
		cn := c.Conns[0]
		rpc := k.W.RPC(c.Op.RPC)
		_ = rpc
		reqCT := ""
		if cn.WireHead != nil {
			reqCT = cn.WireHead.Header.Get("Content-Type")
		}
		fam := ctFamily(reqCT)
		hk := "nohook"
		if hooked {
			hk = fmt.Sprintf("hook(msg=%s,status=%d,hdrs=%d,body=%v)", hp.ReturnMsg, hp.Status, len(hp.Headers), hp.WriteBody != "")
		}
		sig := func(class, extra string) string {
			s := "C10|" + class + "|" + c.Op.Client + ">" + c.Op.Server + "|src=" + src + "|fam=" + fam + "|" + hk
			if extra != "" {
				s += "|" + extra
			}
			return s
		}
		if cn.Panic != "" {
			return &Violation{Class: "server-panic", Signature: sig("server-panic", panicSite(cn.Panic)), Detail: cn.Panic}
		}
		if !c.Returned {
			return &Violation{Class: "no-response", Signature: sig("no-response", ""), Detail: fmt.Sprintf("op %d never returned", c.Op.ID)}
		}
		// ---- expected status / body from the documented table ----
		isValidation := src == "header" || src == "url" || src == "body" || src == "rule" || src == "err-validation"
		wantStatus := 500
		if isValidation {
			wantStatus = 400
		}
		if hooked && hp.Status > 0 && hookStatusApplies(hp, c) {
			wantStatus = hp.Status
		} else if hooked && hp.WriteBody != "" {
			wantStatus = 200 // the hook wrote the body without choosing a status: net/http's implicit 200
		}
		if strings.HasPrefix(src, "err-") && len(c.Seen) == 0 {
			// the call never reached the handler (C01's business), so no handler error surfaced
			cov.Tuple(k.W.Name, src, "not-dispatched")
			continue
		}
		wire := cn.s2c.sent
		status, rh, rbody, perr := parseResponse(wire, rpc.Verb)
		if perr != nil {
			return &Violation{Class: "unparsable-response", Signature: sig("unparsable-response", ""), Detail: fmt.Sprintf("op %d: %v", c.Op.ID, perr)}
		}
		if status != wantStatus {
			return &Violation{Class: "wrong-status", Signature: sig("wrong-status", fmt.Sprintf("want=%d|got=%d", wantStatus, status)),
				Detail: fmt.Sprintf("op %d %s source=%s: want HTTP %d, got %d; body=%q", c.Op.ID, c.Op.RPC, src, wantStatus, status, truncBytes(rbody))}
		}
		if hooked {
			for _, h := range hp.Headers {
				if rh.Get(h[0]) != h[1] {
					return &Violation{Class: "hook-header-lost", Signature: sig("hook-header-lost", ""), Detail: fmt.Sprintf("op %d: hook set %s=%q, response has %q", c.Op.ID, h[0], h[1], rh.Get(h[0]))}
				}
			}
		}
		if hooked && hp.WriteBody != "" {
			if string(rbody) != hp.WriteBody {
				return &Violation{Class: "hook-body-not-exclusive", Signature: sig("hook-body-not-exclusive", ""),
					Detail: fmt.Sprintf("op %d: hook wrote %q, response body is %q (nothing may be appended or replaced)", c.Op.ID, hp.WriteBody, truncBytes(rbody))}
			}
			cov.Tuple(k.W.Name, src, "fam="+fam, hk, c.Op.Client)
			continue
		}
		// expected message
		var want proto.Message
		switch {
		case hooked && hp.ReturnMsg == "error":
			want = &sebufhttp.Error{Message: hp.MsgText}
		case src == "err-plain":
			want = &sebufhttp.Error{Message: c.Op.App.Text}
			if c.Op.Server == "ts" && c.HandlerErr != nil {
				want = &sebufhttp.Error{Message: c.HandlerErr.Error()}
			}
		case src == "err-sebuf":
			want = &sebufhttp.Error{Message: c.Op.App.Text}
		case src == "err-wrapped-custom":
			if c.HandlerErr != nil {
				want = &sebufhttp.Error{Message: c.HandlerErr.Error()}
			}
		case src == "err-custom":
			mk := k.W.ErrorTypes[c.Op.App.Custom]
			m := mk()
			_ = proto.Unmarshal(c.Op.App.Bin, m)
			want = m
		case src == "err-validation":
			ve := &sebufhttp.ValidationError{}
			for _, f := range c.Op.App.Fields {
				if !strings.Contains(f, "=") {
					ve.Violations = append(ve.Violations, &sebufhttp.FieldViolation{Field: f, Description: c.Op.App.Text})
				}
			}
			want = ve
		}
		// content type mirrors the request's family (asserted unless the hook committed the status itself)
		wantCT := "application/json"
		if fam == "proto" {
			wantCT = "application/x-protobuf"
		}
		if !(hooked && hp.Status > 0 && hookStatusApplies(hp, c)) && !strings.HasPrefix(rh.Get("Content-Type"), wantCT) {
			return &Violation{Class: "wrong-content-type", Signature: sig("wrong-content-type", ""),
				Detail: fmt.Sprintf("op %d %s: request content type %q, error response content type %q, want %s; body=%q", c.Op.ID, c.Op.RPC, reqCT, rh.Get("Content-Type"), wantCT, truncBytes(rbody))}
		}
		decode := func(m proto.Message) error {
			if fam == "proto" {
				return proto.Unmarshal(rbody, m)
			}
			return protojson.Unmarshal(rbody, m)
		}
		if want != nil {
			got := want.ProtoReflect().New().Interface()
			if err := decode(got); err != nil {
				return &Violation{Class: "error-body-undecodable", Signature: sig("error-body-undecodable", ""),
					Detail: fmt.Sprintf("op %d %s: error body does not decode as %s in the request's format: %v; body=%q", c.Op.ID, c.Op.RPC, want.ProtoReflect().Descriptor().FullName(), err, truncBytes(rbody))}
			}
			eq := proto.Equal(got, want)
			if ve, ok := want.(*sebufhttp.ValidationError); ok {
				eq = strings.Join(violationSet(got.(*sebufhttp.ValidationError)), "|") == strings.Join(violationSet(ve), "|")
			}
			if !eq {
				return &Violation{Class: "wrong-error-body", Signature: sig("wrong-error-body", ""),
					Detail: fmt.Sprintf("op %d %s source=%s: want error body %s, got %s", c.Op.ID, c.Op.RPC, src, jsonOf(want), jsonOf(got))}
			}
		} else if isValidation {
			ve := &sebufhttp.ValidationError{}
			if err := decode(ve); err != nil {
				return &Violation{Class: "error-body-undecodable", Signature: sig("error-body-undecodable", ""),
					Detail: fmt.Sprintf("op %d %s: 400 body does not decode as ValidationError: %v; body=%q", c.Op.ID, c.Op.RPC, err, truncBytes(rbody))}
			}
			got := violationFields(ve)
			var wantFields []string
			switch src {
			case "rule":
				wantFields = expectedRuleFields(c.planReq(k))
			default:
				wantFields = []string{noteOf(c.Op, "field")}
			}
			match := strings.Join(got, ",") == strings.Join(wantFields, ",")
			if src == "header" {
				match = strings.EqualFold(strings.Join(got, ","), strings.Join(wantFields, ","))
			}
			if !match {
				return &Violation{Class: "wrong-violation-fields", Signature: sig("wrong-violation-fields", ""),
					Detail: fmt.Sprintf("op %d %s source=%s: want violations naming %v, got %v (request %s)", c.Op.ID, c.Op.RPC, src, wantFields, got, jsonOf(c.planReq(k)))}
			}
		}
		// ---- client-side mapping (Go client) ----
		if c.Op.Client == "go" {
			if c.Err == nil {
				return &Violation{Class: "client-swallowed-error", Signature: sig("client-swallowed-error", ""), Detail: fmt.Sprintf("op %d: server answered %d but the client returned success", c.Op.ID, status)}
			}
			var cve *sebufhttp.ValidationError
			var ce *sebufhttp.Error
			if status == 400 && want == nil || (status == 400 && isValidationMsg(want)) {
				if !errors.As(c.Err, &cve) {
					return &Violation{Class: "client-400-not-validation-error", Signature: sig("client-400-not-validation-error", ""),
						Detail: fmt.Sprintf("op %d: 400 with a ValidationError body, client error is %T: %v", c.Op.ID, c.Err, c.Err)}
				}
				sve := &sebufhttp.ValidationError{}
				_ = decode(sve)
				if strings.Join(violationSet(cve), "|") != strings.Join(violationSet(sve), "|") {
					return &Violation{Class: "client-violations-differ", Signature: sig("client-violations-differ", ""),
						Detail: fmt.Sprintf("op %d: server sent %v, client error carries %v", c.Op.ID, violationSet(sve), violationSet(cve))}
				}
			} else if src == "err-custom" && fam == "json" && !hooked && len(bytes.TrimSpace(rbody)) > 2 {
				// a custom error message is neither a violation list nor {message}: the client must
				// surface the status and the body
				if !strings.Contains(c.Err.Error(), fmt.Sprint(status)) || !strings.Contains(c.Err.Error(), strings.TrimSpace(string(rbody))) {
					return &Violation{Class: "client-error-loses-status", Signature: sig("client-error-loses-status", "custom"),
						Detail: fmt.Sprintf("op %d: server answered %d with the custom error body %q, the Go client returned %T %q", c.Op.ID, status, truncBytes(rbody), c.Err, c.Err.Error())}
				}
			} else if e, ok := want.(*sebufhttp.Error); ok && status != 400 {
				if errors.As(c.Err, &ce) {
					if ce.GetMessage() != e.GetMessage() {
						return &Violation{Class: "client-message-differs", Signature: sig("client-message-differs", ""),
							Detail: fmt.Sprintf("op %d: server sent message %q, client error carries %q", c.Op.ID, e.GetMessage(), ce.GetMessage())}
					}
				} else if !strings.Contains(c.Err.Error(), fmt.Sprint(status)) {
					return &Violation{Class: "client-error-loses-status", Signature: sig("client-error-loses-status", ""),
						Detail: fmt.Sprintf("op %d: client error %q carries neither the message nor the status %d", c.Op.ID, c.Err.Error(), status)}
				}
			}
		}
		if c.Op.Client == "ts" {
			if c.Err == nil || c.TSError == nil {
				return &Violation{Class: "client-swallowed-error", Signature: sig("client-swallowed-error", ""), Detail: fmt.Sprintf("op %d: server answered %d but the TS client resolved", c.Op.ID, status)}
			}
			kind := fmt.Sprint(c.TSError["kind"])
			if status == 400 && (want == nil || isValidationMsg(want)) {
				sve := &sebufhttp.ValidationError{}
				_ = decode(sve)
				var cve *sebufhttp.ValidationError
				if kind != "validation" || !errors.As(c.Err, &cve) {
					return &Violation{Class: "client-400-not-validation-error", Signature: sig("client-400-not-validation-error", ""),
						Detail: fmt.Sprintf("op %d: 400 with a ValidationError body, TS client rejected with %v", c.Op.ID, c.TSError)}
				}
				if strings.Join(violationSet(cve), "|") != strings.Join(violationSet(sve), "|") {
					return &Violation{Class: "client-violations-differ", Signature: sig("client-violations-differ", ""),
						Detail: fmt.Sprintf("op %d: server sent %v, TS client error carries %v", c.Op.ID, violationSet(sve), violationSet(cve))}
				}
			} else {
				// any other failure (incl. a 400 whose body is not a violation list)
				if kind != "api" || numInt(c.TSError["statusCode"]) != status || fmt.Sprint(c.TSError["body"]) != string(rbody) {
					return &Violation{Class: "client-error-loses-status", Signature: sig("client-error-loses-status", ""),
						Detail: fmt.Sprintf("op %d: server answered %d %q, TS client rejected with %v", c.Op.ID, status, truncBytes(rbody), c.TSError)}
				}
			}
		}
		cov.Tuple(k.W.Name, src, "fam="+fam, hk, c.Op.Client+">"+c.Op.Server, fmt.Sprintf("status=%d", status))
	}
	return nil
}

func isValidationMsg(m proto.Message) bool {
	_, ok := m.(*sebufhttp.ValidationError)
	return ok
}

// breakAnotherRule breaks one more declared rule somewhere in req (a different field
// than those already violated, when there is one).
func breakAnotherRule(w *WorldDesc, req proto.Message) {
	before := len(expectedRuleFields(req))
	var visit func(m protoreflect.Message, depth int) bool
	visit = func(m protoreflect.Message, depth int) bool {
		if depth > 4 {
			return false
		}
		sm, _ := w.Spec().FindMessage("." + string(m.Descriptor().FullName()))
		if sm == nil {
			return false
		}
		fds := m.Descriptor().Fields()
		for i := 0; i < fds.Len(); i++ {
			fd := fds.Get(i)
			sf := sm.Field(string(fd.Name()))
			if sf == nil {
				continue
			}
			if r := sf.Rules; r != nil && sf.Card == "" {
				cp := proto.Clone(m.Interface()).ProtoReflect()
				switch {
				case r.MinLen != nil && fd.Kind() == protoreflect.StringKind:
					m.Set(fd, protoreflect.ValueOfString(""))
				case r.MaxLen != nil && fd.Kind() == protoreflect.StringKind:
					m.Set(fd, protoreflect.ValueOfString(strings.Repeat("z", int(*r.MaxLen)+3)))
				case len(r.In) > 0 && fd.Kind() == protoreflect.StringKind:
					m.Set(fd, protoreflect.ValueOfString("definitely-not-in-list"))
				case r.Gt != nil:
					setInt(m, fd, *r.Gt)
				case r.Gte != nil:
					setInt(m, fd, *r.Gte-1)
				case r.Lt != nil:
					setInt(m, fd, *r.Lt)
				}
				if len(expectedRuleFields(req)) > before {
					return true
				}
				_ = cp
			}
			if fd.Kind() == protoreflect.MessageKind && !fd.IsMap() && !fd.IsList() && m.Has(fd) && fd.Message().FullName() != "google.protobuf.Timestamp" {
				if visit(m.Mutable(fd).Message(), depth+1) {
					return true
				}
			}
		}
		return false
	}
	visit(req.ProtoReflect(), 0)
}

// sameText: got is the text a JS runtime decoded from the bytes want (a body cut inside a
// multi-byte character decodes to U+FFFD from there on: only the valid prefix is compared).
func sameText(got, want string) bool {
	if utf8.ValidString(want) {
		return got == want
	}
	n := 0
	for n < len(want) {
		r, sz := utf8.DecodeRuneInString(want[n:])
		if r == utf8.RuneError && sz <= 1 {
			break
		}
		n += sz
	}
	return strings.HasPrefix(got, want[:n])
}
