package simrt

import (
	"errors"
	"fmt"
	"net/http"
	"strings"

	protovalidate "buf.build/go/protovalidate"
	sebufhttp "github.com/SebastienMelki/sebuf/http"

	"google.golang.org/protobuf/proto"
	"google.golang.org/protobuf/reflect/protoreflect"
	"pgregory.net/rapid"

	"verif/simrt/spec"
)

// C01: Go client -> Go server delivers the exact request and response, under every
// benign network schedule (fragmentation, delay, interleaving with other calls).
type propC01 struct{}

func init() { RegisterProperty(propC01{}) }

func (propC01) ID() string      { return "C01" }
func (propC01) Modes() []string { return []string{"benign"} }

func (propC01) Draw(rt *rapid.T, w *WorldDesc, mode string) *Plan {
	p := &Plan{}
	methods := w.AllMethods()
	nOps := rapid.IntRange(1, 4).Draw(rt, "nOps")
	p.BaseSlash = rapid.Bool().Draw(rt, "baseSlash")
	// one or two clients with a client-level content type
	nClients := rapid.IntRange(1, 2).Draw(rt, "nClients")
	for i := 0; i < nClients; i++ {
		var opts []Opt
		if ct := rapid.SampledFrom(contentTypes).Draw(rt, fmt.Sprintf("client%d.ct", i)); ct != "" {
			opts = append(opts, Opt{Kind: "contentType", Value: ct})
		}
		p.Clients = append(p.Clients, opts)
	}
	p.SharedHTTP = rapid.Bool().Draw(rt, "sharedHTTP")
	for i := 0; i < nOps; i++ {
		md := methods[rapid.IntRange(0, len(methods)-1).Draw(rt, fmt.Sprintf("op%d.rpc", i))]
		op := &Op{ID: i, RPC: md.Key, Client: "go", Server: "go"}
		op.ClientIdx = rapid.IntRange(0, nClients-1).Draw(rt, fmt.Sprintf("op%d.client", i))
		if ct := rapid.SampledFrom(contentTypes).Draw(rt, fmt.Sprintf("op%d.ct", i)); ct != "" {
			op.Opts = append(op.Opts, Opt{Kind: "contentType", Value: ct})
		}
		op.Opts = append(op.Opts, drawHeaderOpts(rt, w.RPC(md.Key), fmt.Sprintf("op%d.hdr", i))...)
		if rapid.Bool().Draw(rt, fmt.Sprintf("op%d.marker", i)) {
			op.Opts = append(op.Opts, Opt{Kind: "header", Key: fmt.Sprintf("X-Marker-%d", i), Value: fmt.Sprintf("op%d", i)})
		}
		req := drawReq(rt, w, md, fmt.Sprintf("op%d.req", i))
		resp := NewFilled(rt, md.NewResp, fmt.Sprintf("op%d.resp", i), nil)
		op.ReqBin, op.RespBin = mustMarshal(req), mustMarshal(resp)
		op.ReqJSON, op.RespJSON = jsonOf(req), jsonOf(resp)
		op.App = AppBehaviour{Kind: "respond"}
		op.ReqChunks = drawChunks(rt, fmt.Sprintf("op%d.reqChunks", i))
		op.RespChunks = drawChunks(rt, fmt.Sprintf("op%d.respChunks", i))
		op.DelaysMs = drawDelays(rt, fmt.Sprintf("op%d.delays", i))
		op.StartMs = rapid.SampledFrom([]int{0, 0, 0, 1, 10}).Draw(rt, fmt.Sprintf("op%d.start", i))
		p.Ops = append(p.Ops, op)
	}
	p.Sequential = rapid.IntRange(0, 3).Draw(rt, "sequential") == 0
	p.Schedule = drawSchedule(rt, 64)
	inflatePayloads(rt, w, p)
	p.MountPrefix = rapid.SampledFrom([]string{"", "", "", "/gw", "/gateway/tenant-7"}).Draw(rt, "mountPrefix")
	return p
}

func (propC01) Check(k *Kernel, cov *Coverage) *Violation {
	return checkDelivery(k, cov, "C01")
}

// checkDelivery is the delivery oracle shared by C01 / C08 / C17: every call reached
// exactly the handler of its RPC with an equal request, and returned the handler's
// response.
func checkDelivery(k *Kernel, cov *Coverage, prop string) *Violation {
	if k.ServerPanics > 0 {
		for _, cn := range k.conns {
			if cn.Panic != "" {
				return &Violation{Class: "server-panic", Signature: prop + "|server-panic|" + rpcShape(k.W.RPC(cn.call.Op.RPC)), Detail: cn.Panic}
			}
		}
	}
	if len(k.Orphans) > 0 {
		return &Violation{Class: "orphan-dispatch", Signature: prop + "|orphan-dispatch", Detail: "handler invoked without a call: " + k.Orphans[0].RPC}
	}
	for _, c := range k.Calls {
		rpc := k.W.RPC(c.Op.RPC)
		ct := effectiveCT(k.Plan, c.Op)
		shape := rpcShape(rpc)
		pair := c.Op.Client + ">" + c.Op.Server
		sig := func(class, extra string) string {
			s := prop + "|" + class + "|" + pair + "|ct=" + ct
			switch class {
			case "request-mismatch", "response-mismatch":
				// the field shape in extra names the cause; the route shape does not matter
			default:
				s += "|" + shape
			}
			if extra != "" {
				s += "|" + extra
			}
			return s
		}
		if c.PanicVal != nil {
			return &Violation{Class: "client-panic", Signature: sig("client-panic", ""), Detail: fmt.Sprint(c.PanicVal)}
		}
		if c.Hung || !c.Returned {
			return &Violation{Class: "call-hung", Signature: sig("call-hung", ""), Detail: fmt.Sprintf("op %d (%s) never returned on a fault-free network", c.Op.ID, c.Op.RPC)}
		}
		ruleErr := ruleViolation(c.Req)
		if ruleErr == nil {
			ruleErr = missingRequiredQuery(rpc, c.Req)
		}
		if ruleErr != nil && c.Op.Server == "go" {
			// the drawn request breaks a declared validation rule: the documented outcome is
			// a 400 validation error and no dispatch (details are C10's business)
			if c.Err == nil || len(c.Seen) != 0 {
				return &Violation{Class: "rule-not-enforced", Signature: prop + "|rule-not-enforced|" + pair + "|ct=" + ct + "|in=" + annType(rpc.In),
					Detail: fmt.Sprintf("op %d %s: request %s violates %v but outcome was err=%v dispatched=%d", c.Op.ID, c.Op.RPC, jsonOf(c.Req), ruleErr, c.Err, len(c.Seen))}
			}
			cov.Tuple(k.W.Name, c.Op.RPC, pair, "ct="+ct, "rule-rejected")
			continue
		}
		if c.Err != nil {
			wire := ""
			if len(c.Wire) > 0 {
				wire = c.Wire[0].Verb + " " + c.Wire[0].Target
			}
			st := 0
			if len(c.Conns) > 0 {
				st = c.Conns[len(c.Conns)-1].status
			}
			return &Violation{Class: "call-failed", Signature: prop + "|call-failed|" + pair + "|" + failureKind(k, c, rpc, st, ct),
				Detail: fmt.Sprintf("op %d %s: client returned error %q (wire: %s) for request %s", c.Op.ID, c.Op.RPC, c.Err.Error(), wire, jsonOf(c.Req))}
		}
		var mine []Seen
		for _, s := range c.Seen {
			mine = append(mine, s)
		}
		if len(mine) != 1 {
			return &Violation{Class: "dispatch-count", Signature: sig("dispatch-count", fmt.Sprintf("n=%d", len(mine))),
				Detail: fmt.Sprintf("op %d %s: %d handler invocations, want 1", c.Op.ID, c.Op.RPC, len(mine))}
		}
		if mine[0].RPC != c.Op.RPC {
			return &Violation{Class: "wrong-handler", Signature: sig("wrong-handler", ""),
				Detail: fmt.Sprintf("op %d called %s but handler %s ran", c.Op.ID, c.Op.RPC, mine[0].RPC)}
		}
		if !proto.Equal(mine[0].Req, c.Req) {
			f := firstDiff(c.Req, mine[0].Req)
			return &Violation{Class: "request-mismatch", Signature: sig("request-mismatch", "in="+annType(rpc.In)+"|"+fieldShape(k.W, rpc, rpc.In, f)),
				Detail: fmt.Sprintf("op %d %s field %q: caller passed %s, handler saw %s", c.Op.ID, c.Op.RPC, f, jsonOf(c.Req), jsonOf(mine[0].Req))}
		}
		if v := checkWireHeaders(k, c, prop, pair); v != nil {
			return v
		}
		if c.Resp == nil || !proto.Equal(c.Resp, c.HandlerResp) {
			f := firstDiff(c.HandlerResp, c.Resp)
			return &Violation{Class: "response-mismatch", Signature: sig("response-mismatch", "out="+annType(rpc.Out)+"|"+fieldShape(k.W, nil, rpc.Out, f)),
				Detail: fmt.Sprintf("op %d %s field %q: handler returned %s, caller got %s", c.Op.ID, c.Op.RPC, f, jsonOf(c.HandlerResp), jsonOf(c.Resp))}
		}
		cov.Tuple(k.W.Name, c.Op.RPC, pair, "ct="+ct, "ok")
	}
	return nil
}

var stubValidator, _ = protovalidate.New()

func ruleViolation(m proto.Message) error {
	if m == nil {
		return nil
	}
	return stubValidator.Validate(m)
}

// failureKind classifies a failed call for the signature: what kind of rejection it
// was and which configuration dimension it depends on.
func failureKind(k *Kernel, c *CallState, rpc *spec.RPC, status int, ct string) string {
	body := ""
	if c.Err != nil {
		body = c.Err.Error()
	}
	pathcfg := "explicit"
	if rpc != nil && !rpc.PathKnown {
		pathcfg = "default"
	}
	hasBody := "bodyless"
	if rpc != nil && rpc.HasBody {
		hasBody = "hasbody"
	}
	if rpc != nil && rpc.PathKnown {
		if ms := methodSpec(k.W, rpc); ms != nil && !strings.HasPrefix(ms.Path, "/") {
			pathcfg = "explicit-noslash"
		}
	}
	if status == 400 && rpc != nil && rpc.HasBody && c.Req != nil {
		m := c.Req.ProtoReflect()
		for _, q := range rpc.Query {
			if fd := m.Descriptor().Fields().ByName(protoreflect.Name(q.Field)); fd != nil && q.Required && m.Has(fd) && strings.Contains(body, "missing required query parameter") {
				return "required-query-on-body-verb"
			}
		}
	}
	switch {
	case status == 404 || status == 405 || status == 301 || status == 307:
		return fmt.Sprintf("route-%d|pathcfg=%s|base=%s", status, pathcfg, baseKind(k.W, rpc))
	case status == 400 && strings.Contains(body, "failed to parse request body"):
		in := "plain"
		if rpc != nil {
			in = annType(rpc.In)
		}
		return "body-parse|ct=" + ct + "|" + hasBody + "|in=" + in
	case status == 400 && strings.Contains(body, "header"):
		return "header-rejected|ct=" + ct
	case status == 400:
		f := ""
		var ve *sebufhttp.ValidationError
		if errors.As(c.Err, &ve) && len(ve.Violations) > 0 {
			f = fieldShape(k.W, rpc, rpc.In, ve.Violations[0].Field)
		}
		return "rejected-400|ct=" + ct + "|" + f
	case status == 200 && rpc != nil:
		return "response-decode|ct=" + ct + "|out=" + annType(rpc.Out)
	case status == 0:
		return "no-response|ct=" + ct + "|" + hasBody
	}
	return fmt.Sprintf("status=%d|ct=%s|%s", status, ct, hasBody)
}

func baseKind(w *WorldDesc, rpc *spec.RPC) string {
	if rpc == nil {
		return "?"
	}
	for _, f := range w.Spec().Files {
		for _, s := range f.Services {
			if s.Name == rpc.Service {
				if s.BasePath == nil {
					return "none"
				}
				bp := *s.BasePath
				k := "slash"
				if !strings.HasPrefix(bp, "/") {
					k = "noslash"
				}
				if strings.HasSuffix(bp, "/") {
					k += "+trailing"
				}
				return k
			}
		}
	}
	return "?"
}

// missingRequiredQuery: a required query parameter whose (presence-less) field holds
// the default value cannot be told apart from an absent one; the contract's answer is
// a 400 naming the field, so such a request counts as invalid input, not as a call
// that must be delivered.
func missingRequiredQuery(rpc *spec.RPC, req proto.Message) error {
	if rpc == nil || req == nil {
		return nil
	}
	m := req.ProtoReflect()
	for _, q := range rpc.Query {
		if !q.Required {
			continue
		}
		fd := m.Descriptor().Fields().ByName(protoreflect.Name(q.Field))
		if fd == nil {
			continue
		}
		if !m.Has(fd) {
			return fmt.Errorf("required query parameter %s has the default value", q.Name)
		}
	}
	return nil
}

func methodSpec(w *WorldDesc, rpc *spec.RPC) *spec.Method {
	for _, f := range w.Spec().Files {
		for _, s := range f.Services {
			if s.Name != rpc.Service {
				continue
			}
			for _, m := range s.Methods {
				if m.Name == rpc.Method {
					return m
				}
			}
		}
	}
	return nil
}

// checkWireHeaders: the request on the wire carries exactly the headers this call was
// given (client-level defaults overridden by per-call options) and none that belong to
// another call's per-call options.
func checkWireHeaders(k *Kernel, c *CallState, prop, pair string) *Violation {
	if c.Op.Client != "go" && c.Op.Client != "ts" {
		return nil
	}
	if len(c.Wire) == 0 {
		return nil
	}
	wire := c.Wire[0].Header
	want := map[string]string{}
	if c.Op.ClientIdx < len(k.Plan.Clients) {
		for _, o := range k.Plan.Clients[c.Op.ClientIdx] {
			switch o.Kind {
			case "header":
				want[http.CanonicalHeaderKey(o.Key)] = o.Value
			case "helper":
				// a typed client-level helper exists only on the client of the service that
				// declares the header at service level
				if serviceDeclares(k.W, c.Op.RPC, o.Key) {
					want[http.CanonicalHeaderKey(o.Key)] = o.Value
				}
			}
		}
	}
	for _, o := range c.Op.Opts {
		if o.Kind == "header" || o.Kind == "helper" {
			want[http.CanonicalHeaderKey(o.Key)] = o.Value
		}
	}
	for name, v := range want {
		if got := wire.Get(name); got != v {
			return &Violation{Class: "wire-header-wrong", Signature: prop + "|wire-header-wrong|" + pair,
				Detail: fmt.Sprintf("op %d %s: header %s was given as %q (options), the request on the wire carries %q", c.Op.ID, c.Op.RPC, name, v, got)}
		}
	}
	for _, other := range k.Calls {
		if other == c {
			continue
		}
		for _, o := range other.Op.Opts {
			if o.Kind != "header" && o.Kind != "helper" {
				continue
			}
			name := http.CanonicalHeaderKey(o.Key)
			if _, mine := want[name]; mine {
				continue
			}
			if got := wire.Get(name); got != "" {
				return &Violation{Class: "wire-header-leak", Signature: prop + "|wire-header-leak|" + pair,
					Detail: fmt.Sprintf("op %d %s carries header %s=%q on the wire, which only op %d was given as a per-call option", c.Op.ID, c.Op.RPC, name, got, other.Op.ID)}
			}
		}
	}
	return nil
}

func serviceDeclares(w *WorldDesc, rpcKey, header string) bool {
	svc := strings.SplitN(rpcKey, "/", 2)[0]
	for _, f := range w.Spec().Files {
		for _, s := range f.Services {
			if s.Name != svc {
				continue
			}
			for _, h := range s.Headers {
				if h.Name == header {
					return true
				}
			}
		}
	}
	return false
}
