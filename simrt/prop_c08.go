package simrt

import (
	"fmt"
	"math"

	"google.golang.org/protobuf/proto"
	"google.golang.org/protobuf/reflect/protoreflect"
	"pgregory.net/rapid"
)

// C08: generated TypeScript clients and servers interoperate with the Go ones.
type propC08 struct{}

func init() { RegisterProperty(propC08{}) }

func (propC08) ID() string      { return "C08" }
func (propC08) Modes() []string { return []string{"ts-go", "go-ts", "ts-ts"} }

// scrubNonFinite replaces NaN / Inf (no JSON number form, so no TS `number` value) and
// negative zero (JSON.stringify(-0) is "0": not representable by any JS JSON party) by
// ordinary finite values, recursively.
func scrubNonFinite(m protoreflect.Message, depth int) {
	if depth > 8 {
		return
	}
	fix := func(fd protoreflect.FieldDescriptor, v protoreflect.Value) (protoreflect.Value, bool) {
		if fd.Kind() != protoreflect.FloatKind && fd.Kind() != protoreflect.DoubleKind {
			return v, false
		}
		f := v.Float()
		if math.IsNaN(f) || math.IsInf(f, 0) || (f == 0 && math.Signbit(f)) {
			if fd.Kind() == protoreflect.FloatKind {
				return protoreflect.ValueOfFloat32(2.5), true
			}
			return protoreflect.ValueOfFloat64(2.5), true
		}
		return v, false
	}
	m.Range(func(fd protoreflect.FieldDescriptor, v protoreflect.Value) bool {
		switch {
		case fd.IsMap():
			mp := v.Map()
			mp.Range(func(k protoreflect.MapKey, mv protoreflect.Value) bool {
				if fd.MapValue().Kind() == protoreflect.MessageKind {
					scrubNonFinite(mv.Message(), depth+1)
				} else if nv, ch := fix(fd.MapValue(), mv); ch {
					mp.Set(k, nv)
				}
				return true
			})
		case fd.IsList():
			l := v.List()
			for i := 0; i < l.Len(); i++ {
				if fd.Kind() == protoreflect.MessageKind {
					scrubNonFinite(l.Get(i).Message(), depth+1)
				} else if nv, ch := fix(fd, l.Get(i)); ch {
					l.Set(i, nv)
				}
			}
		case fd.Kind() == protoreflect.MessageKind:
			scrubNonFinite(v.Message(), depth+1)
		default:
			if nv, ch := fix(fd, v); ch {
				m.Set(fd, nv)
			}
		}
		return true
	})
}

func (propC08) Draw(rt *rapid.T, w *WorldDesc, mode string) *Plan {
	p := &Plan{}
	methods := w.AllMethods()
	client, server := "ts", "go"
	switch mode {
	case "go-ts":
		client, server = "go", "ts"
	case "ts-ts":
		client, server = "ts", "ts"
	}
	p.BaseSlash = rapid.Bool().Draw(rt, "baseSlash")
	// one client with optional client-level defaults for service headers
	var copts []Opt
	for _, f := range w.Spec().Files {
		for _, s := range f.Services {
			for hi, h := range s.Headers {
				if rapid.IntRange(0, 2).Draw(rt, fmt.Sprintf("client.%s.h%d", s.Name, hi)) == 0 {
					kind := rapid.SampledFrom([]string{"header", "helper"}).Draw(rt, fmt.Sprintf("client.%s.h%d.kind", s.Name, hi))
					copts = append(copts, Opt{Kind: kind, Key: h.Name, Value: ValidHeaderValue(h, hi)})
				}
			}
		}
	}
	p.Clients = [][]Opt{copts}
	nOps := rapid.IntRange(1, 3).Draw(rt, "nOps")
	for i := 0; i < nOps; i++ {
		l := fmt.Sprintf("op%d", i)
		md := methods[rapid.IntRange(0, len(methods)-1).Draw(rt, l+".rpc")]
		rpc := w.RPC(md.Key)
		op := &Op{ID: i, RPC: md.Key, Client: client, Server: server, App: AppBehaviour{Kind: "respond"}}
		op.Opts = drawHeaderOpts(rt, rpc, l+".hdr")
		if rapid.Bool().Draw(rt, l+".marker") {
			op.Opts = append(op.Opts, Opt{Kind: "header", Key: fmt.Sprintf("X-Marker-%d", i), Value: fmt.Sprintf("op%d", i)})
		}
		req := drawValidReq(rt, w, md, l+".req")
		resp := NewFilled(rt, md.NewResp, l+".resp", nil)
		scrubNonFinite(req.ProtoReflect(), 0)
		scrubNonFinite(resp.ProtoReflect(), 0)
		op.ReqBin, op.RespBin = mustMarshal(req), mustMarshal(resp)
		op.ReqJSON, op.RespJSON = jsonOf(req), jsonOf(resp)
		op.ReqChunks = drawChunks(rt, l+".reqChunks")
		op.RespChunks = drawChunks(rt, l+".respChunks")
		op.DelaysMs = drawDelays(rt, l+".delays")
		if client == "ts" && rapid.IntRange(0, 7).Draw(rt, l+".abort") == 0 {
			op.Faults = []Fault{{Kind: "cancel", AtMs: rapid.IntRange(0, 30).Draw(rt, l+".abortAt")}}
			op.DelaysMs = []int{10, 25}
		}
		p.Ops = append(p.Ops, op)
	}
	p.Sequential = rapid.Bool().Draw(rt, "sequential")
	p.Schedule = drawSchedule(rt, 64)
	inflatePayloads(rt, w, p)
	p.MountPrefix = rapid.SampledFrom([]string{"", "", "", "/gw", "/gateway/tenant-7"}).Draw(rt, "mountPrefix")
	return p
}

func (propC08) Check(k *Kernel, cov *Coverage) *Violation {
	for _, c := range k.Calls {
		pair := c.Op.Client + ">" + c.Op.Server
		rpc := k.W.RPC(c.Op.RPC)
		if c.TSDecodeErr != nil {
			return &Violation{Class: "ts-client-result-not-contract-json", Signature: "C08|ts-client-result-not-contract-json|" + pair + "|" + fieldShape(k.W, nil, rpc.Out, ""),
				Detail: fmt.Sprintf("op %d %s: %v", c.Op.ID, c.Op.RPC, c.TSDecodeErr)}
		}
		for _, s := range c.Seen {
			if s.JSONErr != "" {
				return &Violation{Class: "ts-handler-input-not-contract-json", Signature: "C08|ts-handler-input-not-contract-json|" + pair + "|" + fieldShape(k.W, rpc, rpc.In, s.JSONErrField),
					Detail: fmt.Sprintf("op %d %s: the object the TS route passed to the handler is not the contract JSON of the request type: %s: %s", c.Op.ID, c.Op.RPC, s.JSONErr, truncBytes(s.JSON))}
			}
		}
		// an aborted call must reject, not hang
		if len(c.Op.Faults) > 0 && c.Op.Faults[0].Kind == "cancel" {
			if !c.Returned {
				return &Violation{Class: "abort-hang", Signature: "C08|abort-hang|" + pair, Detail: fmt.Sprintf("op %d %s: AbortSignal fired but the call never settled", c.Op.ID, c.Op.RPC)}
			}
			if c.cancelFired && c.Err == nil && c.RetSeq > 0 && c.Resp == nil {
				return &Violation{Class: "abort-nil", Signature: "C08|abort-nil|" + pair, Detail: "aborted call resolved with nothing"}
			}
			cov.Tuple(k.W.Name, c.Op.RPC, pair, "abort", fmt.Sprintf("err=%v", c.Err != nil))
		}
	}
	// the delivery oracle, skipping aborted calls
	var keep []*CallState
	all := k.Calls
	for _, c := range all {
		if len(c.Op.Faults) > 0 && c.Op.Faults[0].Kind == "cancel" {
			continue
		}
		keep = append(keep, c)
	}
	k.Calls = keep
	v := checkDelivery(k, cov, "C08")
	k.Calls = all
	return v
}

var _ = proto.Equal
