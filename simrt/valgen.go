package simrt

import (
	"math"
	"strings"

	sebufhttp "github.com/SebastienMelki/sebuf/http"

	"google.golang.org/protobuf/proto"
	"google.golang.org/protobuf/reflect/protoreflect"
	"pgregory.net/rapid"

	"verif/simrt/spec"
)

type specRules spec.Rules

// special strings: non-ASCII, reserved URL characters, JSON-sensitive characters.
var specialStrings = []string{
	"a", "x y", "a/b", "a?b", "a#b", "100%", "a+b", "a&b=c", "=", "é", "日本語", "😀", "%2F", "%zz", "a\"b", "a\\b", "\t", "<>",
	"..a", "a..", "-1", "0", "true", "null", "{}", "[", "a,b", " lead", "trail ", "%", "+", "&", ";", ":", "@", "~", "'", "a\nb",
	"Ca$$h", "R$&D", "cost$'s", "$`x", "$1", "a$", "$$", "a%2Fb", "100%25", "caf%C3%A9", "x=1&y=2", "a;b", "[x]", "{id}",
}

// GenOpts steers message generation.
type GenOpts struct {
	// NonEmpty lists top-level proto field names that must get a non-default,
	// path-safe value (path-bound fields).
	NonEmpty map[string]bool
	// NoNaN avoids NaN/Inf (for places where the transport has no representation).
	MaxDepth int
}

func genString(rt *rapid.T, label string) string {
	switch rapid.IntRange(0, 3).Draw(rt, label+"#k") {
	case 0:
		return ""
	case 1:
		return rapid.SampledFrom(specialStrings).Draw(rt, label+"#sp")
	case 2:
		return rapid.StringN(0, 12, 40).Draw(rt, label+"#s")
	default:
		return rapid.StringOfN(rapid.RuneFrom([]rune("abcXYZ019_-. ")), 1, 8, -1).Draw(rt, label+"#w")
	}
}

func genScalar(rt *rapid.T, fd protoreflect.FieldDescriptor, label string) protoreflect.Value {
	switch fd.Kind() {
	case protoreflect.BoolKind:
		return protoreflect.ValueOfBool(rapid.Bool().Draw(rt, label))
	case protoreflect.Int32Kind, protoreflect.Sint32Kind, protoreflect.Sfixed32Kind:
		return protoreflect.ValueOfInt32(rapid.Int32().Draw(rt, label))
	case protoreflect.Int64Kind, protoreflect.Sint64Kind, protoreflect.Sfixed64Kind:
		return protoreflect.ValueOfInt64(rapid.Int64().Draw(rt, label))
	case protoreflect.Uint32Kind, protoreflect.Fixed32Kind:
		return protoreflect.ValueOfUint32(rapid.Uint32().Draw(rt, label))
	case protoreflect.Uint64Kind, protoreflect.Fixed64Kind:
		return protoreflect.ValueOfUint64(rapid.Uint64().Draw(rt, label))
	case protoreflect.FloatKind:
		switch rapid.IntRange(0, 9).Draw(rt, label+"#k") {
		case 0:
			return protoreflect.ValueOfFloat32(float32(math.NaN()))
		case 1:
			return protoreflect.ValueOfFloat32(float32(math.Inf(1)))
		case 2:
			return protoreflect.ValueOfFloat32(float32(math.Inf(-1)))
		case 3:
			return protoreflect.ValueOfFloat32(float32(math.Copysign(0, -1)))
		}
		return protoreflect.ValueOfFloat32(rapid.Float32().Draw(rt, label))
	case protoreflect.DoubleKind:
		switch rapid.IntRange(0, 9).Draw(rt, label+"#k") {
		case 0:
			return protoreflect.ValueOfFloat64(math.NaN())
		case 1:
			return protoreflect.ValueOfFloat64(math.Inf(1))
		case 2:
			return protoreflect.ValueOfFloat64(math.Inf(-1))
		case 3:
			return protoreflect.ValueOfFloat64(math.Copysign(0, -1))
		}
		return protoreflect.ValueOfFloat64(rapid.Float64().Draw(rt, label))
	case protoreflect.StringKind:
		return protoreflect.ValueOfString(genString(rt, label))
	case protoreflect.BytesKind:
		return protoreflect.ValueOfBytes(rapid.SliceOfN(rapid.Byte(), 0, 8).Draw(rt, label))
	case protoreflect.EnumKind:
		vals := fd.Enum().Values()
		i := rapid.IntRange(0, vals.Len()-1).Draw(rt, label)
		return protoreflect.ValueOfEnum(vals.Get(i).Number())
	}
	panic("genScalar: unsupported kind " + fd.Kind().String())
}

func genMapKey(rt *rapid.T, fd protoreflect.FieldDescriptor, label string) protoreflect.MapKey {
	v := genScalar(rt, fd, label)
	return v.MapKey()
}

// GenMessage fills m with drawn values.
func GenMessage(rt *rapid.T, m protoreflect.Message, label string, depth int, opt *GenOpts) {
	md := m.Descriptor()
	if md.FullName() == "google.protobuf.Timestamp" {
		// always a valid timestamp (also as list element / map value)
		secs := rapid.Int64Range(-62135596800, 253402300799).Draw(rt, label+"#secs")
		nanos := rapid.SampledFrom([]int32{0, 0, 1, 1000, 1000000, 123456789, 999999999}).Draw(rt, label+"#nanos")
		m.Set(md.Fields().ByName("seconds"), protoreflect.ValueOfInt64(secs))
		m.Set(md.Fields().ByName("nanos"), protoreflect.ValueOfInt32(nanos))
		return
	}
	fds := md.Fields()
	maxDepth := 3
	if opt != nil && opt.MaxDepth > 0 {
		maxDepth = opt.MaxDepth
	}
	for i := 0; i < fds.Len(); i++ {
		fd := fds.Get(i)
		l := label + "." + string(fd.Name())
		must := depth == 0 && opt != nil && opt.NonEmpty[string(fd.Name())]
		if must {
			m.Set(fd, genPathSafe(rt, fd, l))
			continue
		}
		if od := fd.ContainingOneof(); od != nil && !od.IsSynthetic() {
			// handled below per oneof
			continue
		}
		// presence: skip about a third of the fields
		if rapid.IntRange(0, 2).Draw(rt, l+"#set") == 0 {
			continue
		}
		genField(rt, m, fd, l, depth, maxDepth, opt)
	}
	ods := md.Oneofs()
	for i := 0; i < ods.Len(); i++ {
		od := ods.Get(i)
		if od.IsSynthetic() {
			continue
		}
		n := od.Fields().Len()
		pick := rapid.IntRange(-1, n-1).Draw(rt, label+"."+string(od.Name())+"#which")
		if pick < 0 {
			continue
		}
		fd := od.Fields().Get(pick)
		genField(rt, m, fd, label+"."+string(fd.Name()), depth, maxDepth, opt)
	}
}

func genField(rt *rapid.T, m protoreflect.Message, fd protoreflect.FieldDescriptor, l string, depth, maxDepth int, opt *GenOpts) {
	switch {
	case fd.IsMap():
		n := rapid.IntRange(0, 2).Draw(rt, l+"#n")
		mp := m.Mutable(fd).Map()
		for j := 0; j < n; j++ {
			k := genMapKey(rt, fd.MapKey(), l+"#key")
			if fd.MapValue().Kind() == protoreflect.MessageKind {
				v := mp.NewValue()
				if depth < maxDepth {
					GenMessage(rt, v.Message(), l+"#val", depth+1, opt)
				}
				mp.Set(k, v)
			} else {
				mp.Set(k, genScalar(rt, fd.MapValue(), l+"#val"))
			}
		}
	case fd.IsList():
		n := rapid.IntRange(0, 3).Draw(rt, l+"#n")
		ls := m.Mutable(fd).List()
		for j := 0; j < n; j++ {
			if fd.Kind() == protoreflect.MessageKind {
				v := ls.NewElement()
				if depth < maxDepth {
					GenMessage(rt, v.Message(), l+"#el", depth+1, opt)
				}
				ls.Append(v)
			} else {
				ls.Append(genScalar(rt, fd, l+"#el"))
			}
		}
	case fd.Kind() == protoreflect.MessageKind:
		if depth >= maxDepth {
			return
		}
		if fd.Message().FullName() == "google.protobuf.Timestamp" {
			v := m.NewField(fd)
			tm := v.Message()
			secs := rapid.Int64Range(-62135596800, 253402300799).Draw(rt, l+"#secs")
			nanos := rapid.SampledFrom([]int32{0, 0, 1, 1000, 1000000, 123456789, 999999999}).Draw(rt, l+"#nanos")
			// documented lossy formats: stay inside the domain the format can carry
			switch timestampFormatOf(fd) {
			case sebufhttp.TimestampFormat_TIMESTAMP_FORMAT_UNIX_SECONDS:
				nanos = 0
			case sebufhttp.TimestampFormat_TIMESTAMP_FORMAT_UNIX_MILLIS:
				nanos = nanos / 1000000 * 1000000
			case sebufhttp.TimestampFormat_TIMESTAMP_FORMAT_DATE:
				nanos = 0
				secs = secs / 86400 * 86400
				if secs < -62135596800 {
					secs = -62135596800
				}
			}
			tm.Set(tm.Descriptor().Fields().ByName("seconds"), protoreflect.ValueOfInt64(secs))
			tm.Set(tm.Descriptor().Fields().ByName("nanos"), protoreflect.ValueOfInt32(nanos))
			m.Set(fd, v)
			return
		}
		v := m.NewField(fd)
		GenMessage(rt, v.Message(), l, depth+1, opt)
		if eb := emptyBehaviorOf(fd); (eb == sebufhttp.EmptyBehavior_EMPTY_BEHAVIOR_NULL || eb == sebufhttp.EmptyBehavior_EMPTY_BEHAVIOR_OMIT || isFlatten(fd)) && proto.Size(v.Message().Interface()) == 0 {
			// documented loss: presence of an empty message is not carried under NULL / OMIT
			return
		}
		m.Set(fd, v)
	default:
		m.Set(fd, genScalar(rt, fd, l))
	}
}

// genPathSafe draws a non-default value that a path segment can carry: non-empty,
// and not the dot-segments "." / ".." which HTTP path normalisation removes.
func genPathSafe(rt *rapid.T, fd protoreflect.FieldDescriptor, l string) protoreflect.Value {
	for tries := 0; ; tries++ {
		v := genScalar(rt, fd, l)
		switch fd.Kind() {
		case protoreflect.StringKind:
			s := v.String()
			if s == "" || s == "." || s == ".." || s == "/" {
				if tries > 20 {
					return protoreflect.ValueOfString("p")
				}
				continue
			}
		}
		return v
	}
}

// NewFilled draws a message of the type made by mk.
func NewFilled(rt *rapid.T, mk func() proto.Message, label string, opt *GenOpts) proto.Message {
	m := mk()
	GenMessage(rt, m.ProtoReflect(), label, 0, opt)
	return m
}

// nonZeroValue returns a canonical non-default scalar for fd.
func nonZeroValue(fd protoreflect.FieldDescriptor) protoreflect.Value {
	switch fd.Kind() {
	case protoreflect.BoolKind:
		return protoreflect.ValueOfBool(true)
	case protoreflect.Int32Kind, protoreflect.Sint32Kind, protoreflect.Sfixed32Kind:
		return protoreflect.ValueOfInt32(1)
	case protoreflect.Int64Kind, protoreflect.Sint64Kind, protoreflect.Sfixed64Kind:
		return protoreflect.ValueOfInt64(1)
	case protoreflect.Uint32Kind, protoreflect.Fixed32Kind:
		return protoreflect.ValueOfUint32(1)
	case protoreflect.Uint64Kind, protoreflect.Fixed64Kind:
		return protoreflect.ValueOfUint64(1)
	case protoreflect.FloatKind:
		return protoreflect.ValueOfFloat32(1.5)
	case protoreflect.DoubleKind:
		return protoreflect.ValueOfFloat64(1.5)
	case protoreflect.StringKind:
		return protoreflect.ValueOfString("p")
	case protoreflect.BytesKind:
		return protoreflect.ValueOfBytes([]byte{1})
	case protoreflect.EnumKind:
		vals := fd.Enum().Values()
		return protoreflect.ValueOfEnum(vals.Get(vals.Len() - 1).Number())
	}
	return fd.Default()
}

// Repair rewrites m (recursively) so that it satisfies the validation rules the
// world's spec declares (the subset the stub validator interprets).
func Repair(w *WorldDesc, m protoreflect.Message, depth int) {
	if depth > 8 {
		return
	}
	sm, _ := w.Spec().FindMessage("." + string(m.Descriptor().FullName()))
	fds := m.Descriptor().Fields()
	for i := 0; i < fds.Len(); i++ {
		fd := fds.Get(i)
		var rules *specRules
		if sm != nil {
			if sf := sm.Field(string(fd.Name())); sf != nil && sf.Rules != nil {
				rules = (*specRules)(sf.Rules)
			}
		}
		if rules != nil {
			repairField(m, fd, rules)
		}
		if !m.Has(fd) {
			continue
		}
		switch {
		case fd.IsMap():
			if fd.MapValue().Kind() == protoreflect.MessageKind {
				m.Get(fd).Map().Range(func(_ protoreflect.MapKey, v protoreflect.Value) bool {
					Repair(w, v.Message(), depth+1)
					return true
				})
			}
		case fd.IsList():
			if fd.Kind() == protoreflect.MessageKind {
				l := m.Get(fd).List()
				for j := 0; j < l.Len(); j++ {
					Repair(w, l.Get(j).Message(), depth+1)
				}
			}
		case fd.Kind() == protoreflect.MessageKind:
			Repair(w, m.Mutable(fd).Message(), depth+1)
		}
	}
}

func repairField(m protoreflect.Message, fd protoreflect.FieldDescriptor, r *specRules) {
	switch {
	case fd.IsList():
		l := m.Mutable(fd).List()
		if r.MaxItems != nil {
			for uint64(l.Len()) > *r.MaxItems {
				l.Truncate(l.Len() - 1)
			}
		}
		if r.MinItems != nil {
			for uint64(l.Len()) < *r.MinItems {
				if fd.Kind() == protoreflect.MessageKind {
					l.Append(l.NewElement())
				} else {
					l.Append(nonZeroValue(fd))
				}
			}
		}
	case fd.IsMap():
		mp := m.Mutable(fd).Map()
		if r.MaxPairs != nil {
			var keys []protoreflect.MapKey
			mp.Range(func(k protoreflect.MapKey, _ protoreflect.Value) bool { keys = append(keys, k); return true })
			sortMapKeys(keys)
			for uint64(mp.Len()) > *r.MaxPairs && len(keys) > 0 {
				mp.Clear(keys[len(keys)-1])
				keys = keys[:len(keys)-1]
			}
		}
	case fd.Kind() == protoreflect.MessageKind:
		if r.Required && !m.Has(fd) {
			m.Set(fd, m.NewField(fd))
			m.Mutable(fd)
		}
	case fd.Kind() == protoreflect.StringKind:
		if fd.HasPresence() && !m.Has(fd) {
			return
		}
		s := []rune(m.Get(fd).String())
		if len(r.In) > 0 {
			ok := false
			for _, x := range r.In {
				if x == string(s) {
					ok = true
				}
			}
			if !ok {
				m.Set(fd, protoreflect.ValueOfString(r.In[len(s)%len(r.In)]))
			}
			return
		}
		if r.MaxLen != nil && uint64(len(s)) > *r.MaxLen {
			s = s[:*r.MaxLen]
		}
		if r.MinLen != nil {
			for uint64(len(s)) < *r.MinLen {
				s = append(s, 'm')
			}
		}
		m.Set(fd, protoreflect.ValueOfString(string(s)))
	case fd.Kind() == protoreflect.Int32Kind || fd.Kind() == protoreflect.Int64Kind:
		if fd.HasPresence() && !m.Has(fd) {
			return
		}
		v := m.Get(fd).Int()
		lo, hi := int64(-1<<62), int64(1<<62)
		if fd.Kind() == protoreflect.Int32Kind {
			lo, hi = -1<<31, 1<<31-1
		}
		if r.Gt != nil {
			lo = *r.Gt + 1
		}
		if r.Gte != nil {
			lo = *r.Gte
		}
		if r.Lt != nil {
			hi = *r.Lt - 1
		}
		if r.Lte != nil {
			hi = *r.Lte
		}
		if v < lo {
			v = lo
		}
		if v > hi {
			v = hi
		}
		if fd.Kind() == protoreflect.Int32Kind {
			m.Set(fd, protoreflect.ValueOfInt32(int32(v)))
		} else {
			m.Set(fd, protoreflect.ValueOfInt64(v))
		}
	}
}

func sortMapKeys(ks []protoreflect.MapKey) {
	for i := 1; i < len(ks); i++ {
		for j := i; j > 0 && ks[j].String() < ks[j-1].String(); j-- {
			ks[j], ks[j-1] = ks[j-1], ks[j]
		}
	}
}

func timestampFormatOf(fd protoreflect.FieldDescriptor) sebufhttp.TimestampFormat {
	opts := fd.Options()
	if opts == nil || !proto.HasExtension(opts, sebufhttp.E_TimestampFormat) {
		return sebufhttp.TimestampFormat_TIMESTAMP_FORMAT_UNSPECIFIED
	}
	v, _ := proto.GetExtension(opts, sebufhttp.E_TimestampFormat).(sebufhttp.TimestampFormat)
	return v
}

func emptyBehaviorOf(fd protoreflect.FieldDescriptor) sebufhttp.EmptyBehavior {
	opts := fd.Options()
	if opts == nil || !proto.HasExtension(opts, sebufhttp.E_EmptyBehavior) {
		return sebufhttp.EmptyBehavior_EMPTY_BEHAVIOR_UNSPECIFIED
	}
	v, _ := proto.GetExtension(opts, sebufhttp.E_EmptyBehavior).(sebufhttp.EmptyBehavior)
	return v
}

// isFlatten: a flattened child contributes only its fields, so the presence of an
// EMPTY child cannot be carried (same kind of loss as empty_behavior OMIT).
func isFlatten(fd protoreflect.FieldDescriptor) bool {
	opts := fd.Options()
	if opts == nil || !proto.HasExtension(opts, sebufhttp.E_Flatten) {
		return false
	}
	v, _ := proto.GetExtension(opts, sebufhttp.E_Flatten).(bool)
	return v
}

// inflatePayloads makes the response of one call large (a long string in its first plain
// string field): net/http sends a response that does not fit its 2 KiB buffer in chunked
// transfer encoding, without a Content-Length. Drawn last so that the rest of a plan is what
// it was before this existed.
func inflatePayloads(rt *rapid.T, w *WorldDesc, p *Plan) {
	if len(p.Ops) == 0 || rapid.IntRange(0, 5).Draw(rt, "inflate") != 0 {
		return
	}
	op := p.Ops[rapid.IntRange(0, len(p.Ops)-1).Draw(rt, "inflate.op")]
	n := rapid.SampledFrom([]int{2049, 3000, 5000, 20000}).Draw(rt, "inflate.size")
	if op.App.Kind != "respond" && op.App.Kind != "" {
		return
	}
	_, md := w.Method(op.RPC)
	if md == nil {
		return
	}
	resp := md.NewResp()
	if err := proto.Unmarshal(op.RespBin, resp); err != nil {
		return
	}
	if !setFirstString(resp, strings.Repeat("0123456789abcdef", n/16+1)[:n-2]+"é") {
		return
	}
	op.RespBin = mustMarshal(resp)
	if op.RespJSON != "" {
		op.RespJSON = jsonOf(resp)
	}
	// coarser fragmentation (the response is hundreds of times larger than the others)
	for i := range op.RespChunks {
		op.RespChunks[i] *= 97
	}
	op.Notes = append(op.Notes, "inflated")
}
