package simrt

import (
	"math"

	"google.golang.org/protobuf/proto"
	"google.golang.org/protobuf/reflect/protoreflect"
	"pgregory.net/rapid"
)

// special strings: non-ASCII, reserved URL characters, JSON-sensitive characters.
var specialStrings = []string{
	"a", "x y", "a/b", "a?b", "a#b", "100%", "a+b", "a&b=c", "=", "é", "日本語", "😀", "%2F", "%zz", "a\"b", "a\\b", "\t", "<>",
	"..a", "a..", "-1", "0", "true", "null", "{}", "[", "a,b", " lead", "trail ", "%", "+", "&", ";", ":", "@", "~", "'", "a\nb",
}

// GenOpts steers message generation.
type GenOpts struct {
	// NonEmpty lists top-level proto field names that must get a non-default,
	// path-safe value (path-bound fields).
	NonEmpty map[string]bool
	// NoNaN avoids NaN/Inf (for places where the transport has no representation).
	MaxDepth int
}

func genString(rt *rapid.T, label string) string {
	switch rapid.IntRange(0, 3).Draw(rt, label+"#k") {
	case 0:
		return ""
	case 1:
		return rapid.SampledFrom(specialStrings).Draw(rt, label+"#sp")
	case 2:
		return rapid.StringN(0, 12, 40).Draw(rt, label+"#s")
	default:
		return rapid.StringOfN(rapid.RuneFrom([]rune("abcXYZ019_-. ")), 1, 8, -1).Draw(rt, label+"#w")
	}
}

func genScalar(rt *rapid.T, fd protoreflect.FieldDescriptor, label string) protoreflect.Value {
	switch fd.Kind() {
	case protoreflect.BoolKind:
		return protoreflect.ValueOfBool(rapid.Bool().Draw(rt, label))
	case protoreflect.Int32Kind, protoreflect.Sint32Kind, protoreflect.Sfixed32Kind:
		return protoreflect.ValueOfInt32(rapid.Int32().Draw(rt, label))
	case protoreflect.Int64Kind, protoreflect.Sint64Kind, protoreflect.Sfixed64Kind:
		return protoreflect.ValueOfInt64(rapid.Int64().Draw(rt, label))
	case protoreflect.Uint32Kind, protoreflect.Fixed32Kind:
		return protoreflect.ValueOfUint32(rapid.Uint32().Draw(rt, label))
	case protoreflect.Uint64Kind, protoreflect.Fixed64Kind:
		return protoreflect.ValueOfUint64(rapid.Uint64().Draw(rt, label))
	case protoreflect.FloatKind:
		switch rapid.IntRange(0, 9).Draw(rt, label+"#k") {
		case 0:
			return protoreflect.ValueOfFloat32(float32(math.NaN()))
		case 1:
			return protoreflect.ValueOfFloat32(float32(math.Inf(1)))
		case 2:
			return protoreflect.ValueOfFloat32(float32(math.Inf(-1)))
		case 3:
			return protoreflect.ValueOfFloat32(float32(math.Copysign(0, -1)))
		}
		return protoreflect.ValueOfFloat32(rapid.Float32().Draw(rt, label))
	case protoreflect.DoubleKind:
		switch rapid.IntRange(0, 9).Draw(rt, label+"#k") {
		case 0:
			return protoreflect.ValueOfFloat64(math.NaN())
		case 1:
			return protoreflect.ValueOfFloat64(math.Inf(1))
		case 2:
			return protoreflect.ValueOfFloat64(math.Inf(-1))
		case 3:
			return protoreflect.ValueOfFloat64(math.Copysign(0, -1))
		}
		return protoreflect.ValueOfFloat64(rapid.Float64().Draw(rt, label))
	case protoreflect.StringKind:
		return protoreflect.ValueOfString(genString(rt, label))
	case protoreflect.BytesKind:
		return protoreflect.ValueOfBytes(rapid.SliceOfN(rapid.Byte(), 0, 8).Draw(rt, label))
	case protoreflect.EnumKind:
		vals := fd.Enum().Values()
		i := rapid.IntRange(0, vals.Len()-1).Draw(rt, label)
		return protoreflect.ValueOfEnum(vals.Get(i).Number())
	}
	panic("genScalar: unsupported kind " + fd.Kind().String())
}

func genMapKey(rt *rapid.T, fd protoreflect.FieldDescriptor, label string) protoreflect.MapKey {
	v := genScalar(rt, fd, label)
	return v.MapKey()
}

// GenMessage fills m with drawn values.
func GenMessage(rt *rapid.T, m protoreflect.Message, label string, depth int, opt *GenOpts) {
	md := m.Descriptor()
	fds := md.Fields()
	maxDepth := 3
	if opt != nil && opt.MaxDepth > 0 {
		maxDepth = opt.MaxDepth
	}
	for i := 0; i < fds.Len(); i++ {
		fd := fds.Get(i)
		l := label + "." + string(fd.Name())
		must := depth == 0 && opt != nil && opt.NonEmpty[string(fd.Name())]
		if must {
			m.Set(fd, genPathSafe(rt, fd, l))
			continue
		}
		if od := fd.ContainingOneof(); od != nil && !od.IsSynthetic() {
			// handled below per oneof
			continue
		}
		// presence: skip about a third of the fields
		if rapid.IntRange(0, 2).Draw(rt, l+"#set") == 0 {
			continue
		}
		genField(rt, m, fd, l, depth, maxDepth, opt)
	}
	ods := md.Oneofs()
	for i := 0; i < ods.Len(); i++ {
		od := ods.Get(i)
		if od.IsSynthetic() {
			continue
		}
		n := od.Fields().Len()
		pick := rapid.IntRange(-1, n-1).Draw(rt, label+"."+string(od.Name())+"#which")
		if pick < 0 {
			continue
		}
		fd := od.Fields().Get(pick)
		genField(rt, m, fd, label+"."+string(fd.Name()), depth, maxDepth, opt)
	}
}

func genField(rt *rapid.T, m protoreflect.Message, fd protoreflect.FieldDescriptor, l string, depth, maxDepth int, opt *GenOpts) {
	switch {
	case fd.IsMap():
		n := rapid.IntRange(0, 2).Draw(rt, l+"#n")
		mp := m.Mutable(fd).Map()
		for j := 0; j < n; j++ {
			k := genMapKey(rt, fd.MapKey(), l+"#key")
			if fd.MapValue().Kind() == protoreflect.MessageKind {
				v := mp.NewValue()
				if depth < maxDepth {
					GenMessage(rt, v.Message(), l+"#val", depth+1, opt)
				}
				mp.Set(k, v)
			} else {
				mp.Set(k, genScalar(rt, fd.MapValue(), l+"#val"))
			}
		}
	case fd.IsList():
		n := rapid.IntRange(0, 3).Draw(rt, l+"#n")
		ls := m.Mutable(fd).List()
		for j := 0; j < n; j++ {
			if fd.Kind() == protoreflect.MessageKind {
				v := ls.NewElement()
				if depth < maxDepth {
					GenMessage(rt, v.Message(), l+"#el", depth+1, opt)
				}
				ls.Append(v)
			} else {
				ls.Append(genScalar(rt, fd, l+"#el"))
			}
		}
	case fd.Kind() == protoreflect.MessageKind:
		if depth >= maxDepth {
			return
		}
		if fd.Message().FullName() == "google.protobuf.Timestamp" {
			v := m.NewField(fd)
			tm := v.Message()
			secs := rapid.Int64Range(-62135596800, 253402300799).Draw(rt, l+"#secs")
			nanos := rapid.SampledFrom([]int32{0, 0, 1, 1000, 1000000, 123456789, 999999999}).Draw(rt, l+"#nanos")
			tm.Set(tm.Descriptor().Fields().ByName("seconds"), protoreflect.ValueOfInt64(secs))
			tm.Set(tm.Descriptor().Fields().ByName("nanos"), protoreflect.ValueOfInt32(nanos))
			m.Set(fd, v)
			return
		}
		v := m.NewField(fd)
		GenMessage(rt, v.Message(), l, depth+1, opt)
		m.Set(fd, v)
	default:
		m.Set(fd, genScalar(rt, fd, l))
	}
}

// genPathSafe draws a non-default value that a path segment can carry: non-empty,
// and not the dot-segments "." / ".." which HTTP path normalisation removes.
func genPathSafe(rt *rapid.T, fd protoreflect.FieldDescriptor, l string) protoreflect.Value {
	for tries := 0; ; tries++ {
		v := genScalar(rt, fd, l)
		switch fd.Kind() {
		case protoreflect.StringKind:
			s := v.String()
			if s == "" || s == "." || s == ".." {
				if tries > 20 {
					return protoreflect.ValueOfString("p")
				}
				continue
			}
		}
		return v
	}
}

// NewFilled draws a message of the type made by mk.
func NewFilled(rt *rapid.T, mk func() proto.Message, label string, opt *GenOpts) proto.Message {
	m := mk()
	GenMessage(rt, m.ProtoReflect(), label, 0, opt)
	return m
}
