package simrt

// TSBridge is the Node co-simulation bridge (see ts.go once built).
type TSBridge struct{}

func (b *TSBridge) EndRun() {}

func (k *Kernel) serveConnTS(cn *Conn) { panic("ts server not available") }
func (k *Kernel) tsClient(c *CallState) { panic("ts client not available") }
