package spec

import (
	"fmt"
	"sort"
	"strings"

	validate "buf.build/gen/go/bufbuild/protovalidate/protocolbuffers/go/buf/validate"
	sebufhttp "github.com/SebastienMelki/sebuf/http"
	"google.golang.org/protobuf/proto"
	"google.golang.org/protobuf/reflect/protodesc"
	"google.golang.org/protobuf/reflect/protoreflect"
	"google.golang.org/protobuf/reflect/protoregistry"
	"google.golang.org/protobuf/types/descriptorpb"
	"google.golang.org/protobuf/types/known/timestamppb"
	"google.golang.org/protobuf/types/pluginpb"
)

const (
	AnnotationsProto = "proto/sebuf/http/annotations.proto"
	HeadersProto     = "proto/sebuf/http/headers.proto"
	ErrorsProto      = "proto/sebuf/http/errors.proto"
	ValidateProto    = "buf/validate/validate.proto"
	TimestampProto   = "google/protobuf/timestamp.proto"
)

var _ = timestamppb.File_google_protobuf_timestamp_proto

// DepFiles returns the dependency closure (topologically ordered) of the standard
// imports, taken from the Go registry.
func DepFiles() []*descriptorpb.FileDescriptorProto {
	roots := []string{AnnotationsProto, HeadersProto, ErrorsProto, ValidateProto, TimestampProto}
	seen := map[string]bool{}
	var out []*descriptorpb.FileDescriptorProto
	var visit func(fd protoreflect.FileDescriptor)
	visit = func(fd protoreflect.FileDescriptor) {
		if seen[fd.Path()] {
			return
		}
		seen[fd.Path()] = true
		imps := fd.Imports()
		for i := 0; i < imps.Len(); i++ {
			visit(imps.Get(i).FileDescriptor)
		}
		out = append(out, protodesc.ToFileDescriptorProto(fd))
	}
	for _, r := range roots {
		fd, err := protoregistry.GlobalFiles.FindFileByPath(r)
		if err != nil {
			panic(fmt.Sprintf("spec: dependency %s not in registry: %v", r, err))
		}
		visit(fd)
	}
	return out
}

var kindMap = map[string]descriptorpb.FieldDescriptorProto_Type{
	"double":   descriptorpb.FieldDescriptorProto_TYPE_DOUBLE,
	"float":    descriptorpb.FieldDescriptorProto_TYPE_FLOAT,
	"int64":    descriptorpb.FieldDescriptorProto_TYPE_INT64,
	"uint64":   descriptorpb.FieldDescriptorProto_TYPE_UINT64,
	"int32":    descriptorpb.FieldDescriptorProto_TYPE_INT32,
	"fixed64":  descriptorpb.FieldDescriptorProto_TYPE_FIXED64,
	"fixed32":  descriptorpb.FieldDescriptorProto_TYPE_FIXED32,
	"bool":     descriptorpb.FieldDescriptorProto_TYPE_BOOL,
	"string":   descriptorpb.FieldDescriptorProto_TYPE_STRING,
	"message":  descriptorpb.FieldDescriptorProto_TYPE_MESSAGE,
	"bytes":    descriptorpb.FieldDescriptorProto_TYPE_BYTES,
	"uint32":   descriptorpb.FieldDescriptorProto_TYPE_UINT32,
	"enum":     descriptorpb.FieldDescriptorProto_TYPE_ENUM,
	"sfixed32": descriptorpb.FieldDescriptorProto_TYPE_SFIXED32,
	"sfixed64": descriptorpb.FieldDescriptorProto_TYPE_SFIXED64,
	"sint32":   descriptorpb.FieldDescriptorProto_TYPE_SINT32,
	"sint64":   descriptorpb.FieldDescriptorProto_TYPE_SINT64,
}

func camel(s string) string {
	parts := strings.Split(s, "_")
	for i, p := range parts {
		if p != "" {
			parts[i] = strings.ToUpper(p[:1]) + p[1:]
		}
	}
	return strings.Join(parts, "")
}

// jsonName is protoc's rule: drop underscores and upper-case the following letter.
func jsonName(s string) string {
	var b strings.Builder
	up := false
	for _, r := range s {
		if r == '_' {
			up = true
			continue
		}
		if up && r >= 'a' && r <= 'z' {
			r = r - 'a' + 'A'
		}
		up = false
		b.WriteRune(r)
	}
	return b.String()
}

func buildEnum(e *Enum) *descriptorpb.EnumDescriptorProto {
	ed := &descriptorpb.EnumDescriptorProto{Name: proto.String(e.Name)}
	for _, v := range e.Values {
		vd := &descriptorpb.EnumValueDescriptorProto{Name: proto.String(v.Name), Number: proto.Int32(v.Number)}
		if v.Custom != nil {
			vd.Options = &descriptorpb.EnumValueOptions{}
			proto.SetExtension(vd.Options, sebufhttp.E_EnumValue, *v.Custom)
		}
		ed.Value = append(ed.Value, vd)
	}
	return ed
}

func enumByName[T ~int32](m map[string]int32, prefix, name string) T {
	v, ok := m[prefix+name]
	if !ok {
		panic("spec: unknown enum value " + prefix + name)
	}
	return T(v)
}

func fieldOptions(f *Field) *descriptorpb.FieldOptions {
	o := &descriptorpb.FieldOptions{}
	set := false
	if f.Query != nil {
		proto.SetExtension(o, sebufhttp.E_Query, &sebufhttp.QueryConfig{Name: f.Query.Name, Required: f.Query.Required})
		set = true
	}
	if f.Unwrap {
		proto.SetExtension(o, sebufhttp.E_Unwrap, true)
		set = true
	}
	if f.Int64Encoding != "" {
		proto.SetExtension(o, sebufhttp.E_Int64Encoding, enumByName[sebufhttp.Int64Encoding](sebufhttp.Int64Encoding_value, "INT64_ENCODING_", f.Int64Encoding))
		set = true
	}
	if f.EnumEncoding != "" {
		proto.SetExtension(o, sebufhttp.E_EnumEncoding, enumByName[sebufhttp.EnumEncoding](sebufhttp.EnumEncoding_value, "ENUM_ENCODING_", f.EnumEncoding))
		set = true
	}
	if f.Nullable != nil {
		proto.SetExtension(o, sebufhttp.E_Nullable, *f.Nullable)
		set = true
	}
	if f.EmptyBehavior != "" {
		proto.SetExtension(o, sebufhttp.E_EmptyBehavior, enumByName[sebufhttp.EmptyBehavior](sebufhttp.EmptyBehavior_value, "EMPTY_BEHAVIOR_", f.EmptyBehavior))
		set = true
	}
	if f.TimestampFormat != "" {
		proto.SetExtension(o, sebufhttp.E_TimestampFormat, enumByName[sebufhttp.TimestampFormat](sebufhttp.TimestampFormat_value, "TIMESTAMP_FORMAT_", f.TimestampFormat))
		set = true
	}
	if f.BytesEncoding != "" {
		proto.SetExtension(o, sebufhttp.E_BytesEncoding, enumByName[sebufhttp.BytesEncoding](sebufhttp.BytesEncoding_value, "BYTES_ENCODING_", f.BytesEncoding))
		set = true
	}
	if f.OneofValue != nil {
		proto.SetExtension(o, sebufhttp.E_OneofValue, *f.OneofValue)
		set = true
	}
	if f.Flatten {
		proto.SetExtension(o, sebufhttp.E_Flatten, true)
		set = true
	}
	if f.FlattenPrefix != nil {
		proto.SetExtension(o, sebufhttp.E_FlattenPrefix, *f.FlattenPrefix)
		set = true
	}
	if len(f.Examples) > 0 {
		proto.SetExtension(o, sebufhttp.E_FieldExamples, &sebufhttp.FieldExamples{Values: f.Examples})
		set = true
	}
	if f.Rules != nil {
		if fr := buildRules(f); fr != nil {
			proto.SetExtension(o, validate.E_Field, fr)
			set = true
		}
	}
	if !set {
		return nil
	}
	return o
}

func buildRules(f *Field) *validate.FieldRules {
	r := f.Rules
	fr := &validate.FieldRules{}
	if r.Required {
		fr.Required = proto.Bool(true)
	}
	switch {
	case f.Card == "repeated":
		if r.MinItems != nil || r.MaxItems != nil {
			fr.Type = &validate.FieldRules_Repeated{Repeated: &validate.RepeatedRules{MinItems: r.MinItems, MaxItems: r.MaxItems}}
		}
	case f.Card == "map":
		if r.MinPairs != nil || r.MaxPairs != nil {
			fr.Type = &validate.FieldRules_Map{Map: &validate.MapRules{MinPairs: r.MinPairs, MaxPairs: r.MaxPairs}}
		}
	case f.Kind == "string":
		if r.MinLen != nil || r.MaxLen != nil || len(r.In) > 0 {
			fr.Type = &validate.FieldRules_String_{String_: &validate.StringRules{MinLen: r.MinLen, MaxLen: r.MaxLen, In: r.In}}
		}
	case f.Kind == "int32" || f.Kind == "int64":
		if r.Gt == nil && r.Gte == nil && r.Lt == nil && r.Lte == nil {
			break
		}
		if f.Kind == "int32" {
			ir := &validate.Int32Rules{}
			if r.Gt != nil {
				ir.GreaterThan = &validate.Int32Rules_Gt{Gt: int32(*r.Gt)}
			} else if r.Gte != nil {
				ir.GreaterThan = &validate.Int32Rules_Gte{Gte: int32(*r.Gte)}
			}
			if r.Lt != nil {
				ir.LessThan = &validate.Int32Rules_Lt{Lt: int32(*r.Lt)}
			} else if r.Lte != nil {
				ir.LessThan = &validate.Int32Rules_Lte{Lte: int32(*r.Lte)}
			}
			fr.Type = &validate.FieldRules_Int32{Int32: ir}
		} else {
			ir := &validate.Int64Rules{}
			if r.Gt != nil {
				ir.GreaterThan = &validate.Int64Rules_Gt{Gt: *r.Gt}
			} else if r.Gte != nil {
				ir.GreaterThan = &validate.Int64Rules_Gte{Gte: *r.Gte}
			}
			if r.Lt != nil {
				ir.LessThan = &validate.Int64Rules_Lt{Lt: *r.Lt}
			} else if r.Lte != nil {
				ir.LessThan = &validate.Int64Rules_Lte{Lte: *r.Lte}
			}
			fr.Type = &validate.FieldRules_Int64{Int64: ir}
		}
	}
	if fr.Required == nil && fr.Type == nil {
		return nil
	}
	return fr
}

func buildMessage(m *Message, fqPrefix string) *descriptorpb.DescriptorProto {
	md := &descriptorpb.DescriptorProto{Name: proto.String(m.Name)}
	fq := fqPrefix + "." + m.Name
	oneofIdx := map[string]int32{}
	for _, o := range m.Oneofs {
		od := &descriptorpb.OneofDescriptorProto{Name: proto.String(o.Name)}
		if o.HasConfig {
			od.Options = &descriptorpb.OneofOptions{}
			proto.SetExtension(od.Options, sebufhttp.E_OneofConfig, &sebufhttp.OneofConfig{Discriminator: o.Discriminator, Flatten: o.Flatten})
		}
		oneofIdx[o.Name] = int32(len(md.OneofDecl))
		md.OneofDecl = append(md.OneofDecl, od)
	}
	var synthetic []*descriptorpb.OneofDescriptorProto
	for _, f := range m.Fields {
		fd := &descriptorpb.FieldDescriptorProto{
			Name:     proto.String(f.Name),
			Number:   proto.Int32(f.Number),
			JsonName: proto.String(jsonName(f.Name)),
			Label:    descriptorpb.FieldDescriptorProto_LABEL_OPTIONAL.Enum(),
		}
		if f.JSONName != "" {
			fd.JsonName = proto.String(f.JSONName)
		}
		switch f.Card {
		case "repeated":
			fd.Label = descriptorpb.FieldDescriptorProto_LABEL_REPEATED.Enum()
		case "map":
			fd.Label = descriptorpb.FieldDescriptorProto_LABEL_REPEATED.Enum()
			entryName := camel(f.Name) + "Entry"
			valField := &descriptorpb.FieldDescriptorProto{
				Name: proto.String("value"), Number: proto.Int32(2), JsonName: proto.String("value"),
				Label: descriptorpb.FieldDescriptorProto_LABEL_OPTIONAL.Enum(), Type: kindMap[f.Kind].Enum(),
			}
			if f.TypeName != "" {
				valField.TypeName = proto.String(f.TypeName)
			}
			entry := &descriptorpb.DescriptorProto{
				Name: proto.String(entryName),
				Field: []*descriptorpb.FieldDescriptorProto{
					{Name: proto.String("key"), Number: proto.Int32(1), JsonName: proto.String("key"),
						Label: descriptorpb.FieldDescriptorProto_LABEL_OPTIONAL.Enum(), Type: kindMap[f.MapKey].Enum()},
					valField,
				},
				Options: &descriptorpb.MessageOptions{MapEntry: proto.Bool(true)},
			}
			md.NestedType = append(md.NestedType, entry)
			fd.Type = descriptorpb.FieldDescriptorProto_TYPE_MESSAGE.Enum()
			fd.TypeName = proto.String(fq + "." + entryName)
		case "optional":
			fd.Proto3Optional = proto.Bool(true)
			synthetic = append(synthetic, &descriptorpb.OneofDescriptorProto{Name: proto.String("_" + f.Name)})
			// index patched below once real oneofs are counted
		}
		if f.Card != "map" {
			t, ok := kindMap[f.Kind]
			if !ok {
				panic("spec: unknown kind " + f.Kind)
			}
			fd.Type = t.Enum()
			if f.TypeName != "" {
				fd.TypeName = proto.String(f.TypeName)
			}
		}
		if f.Oneof != "" {
			idx, ok := oneofIdx[f.Oneof]
			if !ok {
				panic("spec: unknown oneof " + f.Oneof)
			}
			fd.OneofIndex = proto.Int32(idx)
		}
		fd.Options = fieldOptions(f)
		md.Field = append(md.Field, fd)
	}
	// synthetic oneofs come after real ones, in field order
	si := 0
	for i, f := range m.Fields {
		if f.Card == "optional" {
			md.Field[i].OneofIndex = proto.Int32(int32(len(md.OneofDecl)))
			md.OneofDecl = append(md.OneofDecl, synthetic[si])
			si++
		}
	}
	for _, n := range m.Nested {
		md.NestedType = append(md.NestedType, buildMessage(n, fq))
	}
	for _, e := range m.Enums {
		md.EnumType = append(md.EnumType, buildEnum(e))
	}
	return md
}

func buildHeaders(hs []*Header) []*sebufhttp.Header {
	var out []*sebufhttp.Header
	for _, h := range hs {
		out = append(out, &sebufhttp.Header{Name: h.Name, Type: h.Type, Format: h.Format, Required: h.Required,
			Description: h.Description, Example: h.Example, Deprecated: h.Deprecated})
	}
	return out
}

// BuildFile turns one spec file into a FileDescriptorProto.
func BuildFile(f *File) *descriptorpb.FileDescriptorProto {
	fd := &descriptorpb.FileDescriptorProto{
		Name:    proto.String(f.Path),
		Syntax:  proto.String("proto3"),
		Options: &descriptorpb.FileOptions{GoPackage: proto.String(f.GoPackage)},
	}
	if f.Package != "" {
		fd.Package = proto.String(f.Package)
	}
	deps := map[string]bool{}
	for _, i := range f.Imports {
		deps[i] = true
	}
	deps[AnnotationsProto] = true
	deps[HeadersProto] = true
	deps[ValidateProto] = true
	if usesTimestamp(f) {
		deps[TimestampProto] = true
	}
	var dl []string
	for d := range deps {
		dl = append(dl, d)
	}
	sort.Strings(dl)
	fd.Dependency = dl
	prefix := ""
	if f.Package != "" {
		prefix = "." + f.Package
	}
	for _, e := range f.Enums {
		fd.EnumType = append(fd.EnumType, buildEnum(e))
	}
	for _, m := range f.Messages {
		fd.MessageType = append(fd.MessageType, buildMessage(m, prefix))
	}
	for _, s := range f.Services {
		sd := &descriptorpb.ServiceDescriptorProto{Name: proto.String(s.Name)}
		if s.BasePath != nil || len(s.Headers) > 0 || s.HasHdrOpt {
			sd.Options = &descriptorpb.ServiceOptions{}
			if s.BasePath != nil {
				proto.SetExtension(sd.Options, sebufhttp.E_ServiceConfig, &sebufhttp.ServiceConfig{BasePath: *s.BasePath})
			}
			if len(s.Headers) > 0 || s.HasHdrOpt {
				proto.SetExtension(sd.Options, sebufhttp.E_ServiceHeaders, &sebufhttp.ServiceHeaders{RequiredHeaders: buildHeaders(s.Headers)})
			}
		}
		for _, m := range s.Methods {
			mdp := &descriptorpb.MethodDescriptorProto{Name: proto.String(m.Name), InputType: proto.String(m.In), OutputType: proto.String(m.Out)}
			if m.HasConfig || len(m.Headers) > 0 || m.HasHdrOpt {
				mdp.Options = &descriptorpb.MethodOptions{}
				if m.HasConfig {
					cfg := &sebufhttp.HttpConfig{Path: m.Path}
					if m.Verb != "" {
						cfg.Method = sebufhttp.HttpMethod(sebufhttp.HttpMethod_value["HTTP_METHOD_"+m.Verb])
					}
					proto.SetExtension(mdp.Options, sebufhttp.E_Config, cfg)
				}
				if len(m.Headers) > 0 || m.HasHdrOpt {
					proto.SetExtension(mdp.Options, sebufhttp.E_MethodHeaders, &sebufhttp.MethodHeaders{RequiredHeaders: buildHeaders(m.Headers)})
				}
			}
			sd.Method = append(sd.Method, mdp)
		}
		fd.Service = append(fd.Service, sd)
	}
	return fd
}

func usesTimestamp(f *File) bool {
	var walk func(ms []*Message) bool
	walk = func(ms []*Message) bool {
		for _, m := range ms {
			for _, fl := range m.Fields {
				if fl.TypeName == ".google.protobuf.Timestamp" {
					return true
				}
			}
			if walk(m.Nested) {
				return true
			}
		}
		return false
	}
	return walk(f.Messages)
}

// BuildRequest builds the CodeGeneratorRequest the real plugins receive.
func BuildRequest(w *World, param string) *pluginpb.CodeGeneratorRequest {
	req := &pluginpb.CodeGeneratorRequest{
		CompilerVersion: &pluginpb.Version{Major: proto.Int32(5), Minor: proto.Int32(29), Patch: proto.Int32(0)},
	}
	if param != "" {
		req.Parameter = proto.String(param)
	}
	req.ProtoFile = append(req.ProtoFile, DepFiles()...)
	for _, f := range w.Files {
		req.ProtoFile = append(req.ProtoFile, BuildFile(f))
		req.FileToGenerate = append(req.FileToGenerate, f.Path)
	}
	return req
}

// Resolve builds linked descriptors for the world's files (used by the contract
// model and by sanity checks; fails if the spec is not a valid proto program).
func Resolve(w *World) (*protoregistry.Files, error) {
	set := &descriptorpb.FileDescriptorSet{File: append(DepFiles(), func() []*descriptorpb.FileDescriptorProto {
		var fs []*descriptorpb.FileDescriptorProto
		for _, f := range w.Files {
			fs = append(fs, BuildFile(f))
		}
		return fs
	}()...)}
	return protodesc.NewFiles(set)
}
