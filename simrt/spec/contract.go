package spec

import (
	"regexp"
	"sort"
	"strings"
)

// RPC is the published contract of one method, derived from the annotations as
// documented (annotations.proto comments, docs/), not from the generator sources.
type RPC struct {
	Service   string
	Method    string
	Key       string // "Service/Method"
	In, Out   string // fully-qualified message names
	Verb      string // POST when unset
	HasBody   bool   // POST/PUT/PATCH
	PathKnown bool   // false when the method has no explicit path (documentation gives no single rule)
	Path      string // joined base_path + path, leading "/", exactly one "/" at the join
	PathVars  []string
	Query     []QueryParam
	Headers   []*Header // merged: method-level replaces service-level of the same (case-insensitive) name
}

type QueryParam struct {
	Name     string // wire name
	Field    string // proto field name
	Required bool
}

var pathVarRe = regexp.MustCompile(`\{([a-zA-Z_][a-zA-Z0-9_]*)\}`)

// JoinPath is the documented join: base_path + path with exactly one "/" between
// them and a leading "/".
func JoinPath(base, p string) string {
	if base == "" {
		if !strings.HasPrefix(p, "/") {
			return "/" + p
		}
		return p
	}
	b := strings.TrimSuffix(base, "/")
	if !strings.HasPrefix(b, "/") {
		b = "/" + b
	}
	if !strings.HasPrefix(p, "/") {
		p = "/" + p
	}
	return b + p
}

// MergeHeaders applies the documented rule: a method-level declaration replaces a
// service-level declaration of the same name (HTTP header names are case-insensitive).
func MergeHeaders(svc, meth []*Header) []*Header {
	m := map[string]*Header{}
	var order []string
	for _, h := range svc {
		k := strings.ToLower(h.Name)
		if _, ok := m[k]; !ok {
			order = append(order, k)
		}
		m[k] = h
	}
	for _, h := range meth {
		k := strings.ToLower(h.Name)
		if _, ok := m[k]; !ok {
			order = append(order, k)
		}
		m[k] = h
	}
	sort.Strings(order)
	var out []*Header
	for _, k := range order {
		out = append(out, m[k])
	}
	return out
}

// Contract computes the RPC table of a world.
func Contract(w *World) []*RPC {
	var out []*RPC
	for _, f := range w.Files {
		for _, s := range f.Services {
			for _, m := range s.Methods {
				r := &RPC{Service: s.Name, Method: m.Name, Key: s.Name + "/" + m.Name, In: m.In, Out: m.Out}
				r.Verb = "POST"
				if m.HasConfig && m.Verb != "" {
					r.Verb = m.Verb
				}
				r.HasBody = r.Verb == "POST" || r.Verb == "PUT" || r.Verb == "PATCH"
				base := ""
				if s.BasePath != nil {
					base = *s.BasePath
				}
				if m.HasConfig && m.Path != "" {
					r.PathKnown = true
					r.Path = JoinPath(base, m.Path)
					for _, mm := range pathVarRe.FindAllStringSubmatch(m.Path, -1) {
						r.PathVars = append(r.PathVars, mm[1])
					}
				}
				if in, _ := w.FindMessage(m.In); in != nil {
					for _, fl := range in.Fields {
						if fl.Query != nil {
							n := fl.Query.Name
							if n == "" {
								n = fl.Name
							}
							r.Query = append(r.Query, QueryParam{Name: n, Field: fl.Name, Required: fl.Query.Required})
						}
					}
				}
				r.Headers = MergeHeaders(s.Headers, m.Headers)
				out = append(out, r)
			}
		}
	}
	return out
}

// IsURLBound reports whether field name is carried by the URL for this RPC.
func (r *RPC) IsURLBound(field string) bool {
	for _, v := range r.PathVars {
		if v == field {
			return true
		}
	}
	for _, q := range r.Query {
		if q.Field == field {
			return true
		}
	}
	return false
}
