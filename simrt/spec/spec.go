// Package spec is the harness's own intermediate representation of a "world":
// a set of proto files with sebuf annotations, from which the descriptor set fed to
// the real plugins and the contract model used by the oracles are both derived.
// It shares nothing with /repo/internal.
package spec

// World is one generated schema universe.
type World struct {
	Name     string   `json:"name"`
	Files    []*File  `json:"files"`
	Mock     bool     `json:"mock,omitempty"`
	Features []string `json:"features,omitempty"`
	// Probe marks a small world built to attribute a risky feature combination.
	Probe string `json:"probe,omitempty"`
	// NoTS: the TS / OpenAPI plugins are not run for this world even when the check has TS modes.
	NoTS bool `json:"no_ts,omitempty"`
}

type File struct {
	Path      string     `json:"path"`
	Package   string     `json:"package"`
	GoPackage string     `json:"go_package"` // "<import path>;<name>"
	Imports   []string   `json:"imports,omitempty"`
	Enums     []*Enum    `json:"enums,omitempty"`
	Messages  []*Message `json:"messages,omitempty"`
	Services  []*Service `json:"services,omitempty"`
}

type EnumValue struct {
	Name   string  `json:"name"`
	Number int32   `json:"number"`
	Custom *string `json:"custom,omitempty"` // (sebuf.http.enum_value)
}

type Enum struct {
	Name   string       `json:"name"`
	Values []*EnumValue `json:"values"`
}

type Oneof struct {
	Name          string `json:"name"`
	HasConfig     bool   `json:"has_config,omitempty"`
	Discriminator string `json:"discriminator,omitempty"`
	Flatten       bool   `json:"flatten,omitempty"`
}

type Message struct {
	Name   string     `json:"name"`
	Fields []*Field   `json:"fields,omitempty"`
	Oneofs []*Oneof   `json:"oneofs,omitempty"`
	Nested []*Message `json:"nested,omitempty"`
	Enums  []*Enum    `json:"enums,omitempty"`
}

type Query struct {
	Name     string `json:"name,omitempty"`
	Required bool   `json:"required,omitempty"`
}

// Rules is the subset of buf.validate the stub validator interprets.
type Rules struct {
	Required bool     `json:"required,omitempty"`
	MinLen   *uint64  `json:"min_len,omitempty"`
	MaxLen   *uint64  `json:"max_len,omitempty"`
	In       []string `json:"in,omitempty"`
	Gt       *int64   `json:"gt,omitempty"`
	Gte      *int64   `json:"gte,omitempty"`
	Lt       *int64   `json:"lt,omitempty"`
	Lte      *int64   `json:"lte,omitempty"`
	MinItems *uint64  `json:"min_items,omitempty"`
	MaxItems *uint64  `json:"max_items,omitempty"`
	MinPairs *uint64  `json:"min_pairs,omitempty"`
	MaxPairs *uint64  `json:"max_pairs,omitempty"`
}

type Field struct {
	Name     string `json:"name"`
	Number   int32  `json:"number"`
	Kind     string `json:"kind"`                // proto scalar name, "message", "enum"
	TypeName string `json:"type_name,omitempty"` // ".pkg.Name" for message / enum
	Card     string `json:"card,omitempty"`      // "", "optional", "repeated", "map"
	MapKey   string `json:"map_key,omitempty"`   // scalar kind of the key when Card=="map"
	Oneof    string `json:"oneof,omitempty"`

	Query *Query `json:"query,omitempty"`

	Unwrap          bool     `json:"unwrap,omitempty"`
	Int64Encoding   string   `json:"int64_encoding,omitempty"`   // STRING | NUMBER
	EnumEncoding    string   `json:"enum_encoding,omitempty"`    // STRING | NUMBER
	Nullable        *bool    `json:"nullable,omitempty"`
	EmptyBehavior   string   `json:"empty_behavior,omitempty"`   // PRESERVE | NULL | OMIT
	TimestampFormat string   `json:"timestamp_format,omitempty"` // RFC3339 | UNIX_SECONDS | UNIX_MILLIS | DATE
	BytesEncoding   string   `json:"bytes_encoding,omitempty"`   // BASE64 | BASE64_RAW | BASE64URL | BASE64URL_RAW | HEX
	OneofValue      *string  `json:"oneof_value,omitempty"`
	Flatten         bool     `json:"flatten,omitempty"`
	FlattenPrefix   *string  `json:"flatten_prefix,omitempty"`
	Examples        []string `json:"examples,omitempty"`
	// JSONName: an explicit json_name option (empty = protoc's lowerCamel default)
	JSONName string `json:"json_name,omitempty"`
	Rules           *Rules   `json:"rules,omitempty"`
}

type Header struct {
	Name        string `json:"name"`
	Type        string `json:"type,omitempty"`
	Format      string `json:"format,omitempty"`
	Required    bool   `json:"required,omitempty"`
	Description string `json:"description,omitempty"`
	Example     string `json:"example,omitempty"`
	Deprecated  bool   `json:"deprecated,omitempty"`
}

type Method struct {
	Name      string    `json:"name"`
	In        string    `json:"in"`  // ".pkg.Msg"
	Out       string    `json:"out"` // ".pkg.Msg"
	HasConfig bool      `json:"has_config,omitempty"`
	Path      string    `json:"path,omitempty"`
	Verb      string    `json:"verb,omitempty"` // "", GET, POST, PUT, DELETE, PATCH
	Headers   []*Header `json:"headers,omitempty"`
	HasHdrOpt bool      `json:"has_hdr_opt,omitempty"` // method_headers option present (even if empty)
}

type Service struct {
	Name      string    `json:"name"`
	BasePath  *string   `json:"base_path,omitempty"`
	Headers   []*Header `json:"headers,omitempty"`
	HasHdrOpt bool      `json:"has_hdr_opt,omitempty"`
	Methods   []*Method `json:"methods"`
}

// ---------- lookups ----------

// FindMessage resolves a fully-qualified ".pkg.A.B" name.
func (w *World) FindMessage(fq string) (*Message, *File) {
	for _, f := range w.Files {
		prefix := "."
		if f.Package != "" {
			prefix = "." + f.Package + "."
		}
		if len(fq) > len(prefix) && fq[:len(prefix)] == prefix {
			if m := findMsg(f.Messages, fq[len(prefix):]); m != nil {
				return m, f
			}
		}
	}
	return nil, nil
}

func findMsg(ms []*Message, rel string) *Message {
	for _, m := range ms {
		if m.Name == rel {
			return m
		}
		if len(rel) > len(m.Name)+1 && rel[:len(m.Name)] == m.Name && rel[len(m.Name)] == '.' {
			if x := findMsg(m.Nested, rel[len(m.Name)+1:]); x != nil {
				return x
			}
		}
	}
	return nil
}

func (m *Message) Field(name string) *Field {
	for _, f := range m.Fields {
		if f.Name == name {
			return f
		}
	}
	return nil
}

// IsScalarKind reports whether kind names a proto scalar (not message/enum).
func IsScalarKind(k string) bool {
	switch k {
	case "double", "float", "int32", "int64", "uint32", "uint64", "sint32", "sint64",
		"fixed32", "fixed64", "sfixed32", "sfixed64", "bool", "string", "bytes":
		return true
	}
	return false
}
