package simrt

import (
	"bufio"
	"bytes"
	"encoding/base64"
	"encoding/json"
	"errors"
	"fmt"
	"io"
	"net/http"
	"net/url"
	"os"
	"os/exec"
	"regexp"
	"sort"
	"strings"

	sebufhttp "github.com/SebastienMelki/sebuf/http"
	"google.golang.org/protobuf/encoding/protojson"
	"google.golang.org/protobuf/proto"
	"google.golang.org/protobuf/reflect/protoreflect"
)

// TSBridge drives the Node co-simulator (node/bridge.mjs). All I/O with the node
// process is done synchronously by the kernel goroutine between two kernel events:
// no parked task ever waits on the OS pipe.
type TSBridge struct {
	cmd       *exec.Cmd
	w         *os.File
	r         *bufio.Reader
	dead      error
	loaded    map[string]*TSWorld
	Exchanges int
	Log       []string
	keepLog   bool
}

type TSWorld struct {
	Modules []string
	Errors  []string
	Clients []string
	Routes  map[string][]TSRoute
}

type TSRoute struct {
	Method string `json:"method"`
	Path   string `json:"path"`
}

var globalBridge *TSBridge

// StartBridge launches node (outside any bubble).
func StartBridge() (*TSBridge, error) {
	node, script := os.Getenv("VERIF_NODE"), os.Getenv("VERIF_BRIDGE")
	if node == "" || script == "" {
		return nil, errors.New("VERIF_NODE / VERIF_BRIDGE not set")
	}
	inR, inW, err := os.Pipe()
	if err != nil {
		return nil, err
	}
	outR, outW, err := os.Pipe()
	if err != nil {
		return nil, err
	}
	cmd := exec.Command(node, "--no-warnings", script)
	cmd.Stdin = inR
	cmd.Stdout = outW
	cmd.Stderr = os.Stderr
	cmd.Env = append(os.Environ(), "NODE_NO_WARNINGS=1", "TZ=UTC")
	if err := cmd.Start(); err != nil {
		return nil, err
	}
	inR.Close()
	outW.Close()
	return &TSBridge{cmd: cmd, w: inW, r: bufio.NewReaderSize(outR, 1<<20), loaded: map[string]*TSWorld{}}, nil
}

func (b *TSBridge) Close() {
	if b == nil || b.cmd == nil {
		return
	}
	_, _ = b.w.Write([]byte(`{"t":"exit"}` + "\n"))
	b.w.Close()
	_ = b.cmd.Wait()
}

// Send writes one stimulus and reads events until the bridge reports idle.
func (b *TSBridge) Send(msg map[string]any) ([]map[string]any, error) {
	if b.dead != nil {
		return nil, b.dead
	}
	line, err := json.Marshal(msg)
	if err != nil {
		return nil, err
	}
	if b.keepLog && len(b.Log) < 2000 {
		b.Log = append(b.Log, "> "+truncate(string(line), 300))
	}
	if _, err := b.w.Write(append(line, '\n')); err != nil {
		b.dead = fmt.Errorf("bridge write: %w", err)
		return nil, b.dead
	}
	b.Exchanges++
	var out []map[string]any
	for {
		l, err := b.r.ReadBytes('\n')
		if err != nil {
			b.dead = fmt.Errorf("bridge read: %w", err)
			return out, b.dead
		}
		if b.keepLog && len(b.Log) < 2000 {
			b.Log = append(b.Log, "< "+truncate(strings.TrimSpace(string(l)), 300))
		}
		m := map[string]any{}
		dec := json.NewDecoder(bytes.NewReader(l))
		dec.UseNumber()
		if err := dec.Decode(&m); err != nil {
			b.dead = fmt.Errorf("bridge sent bad json: %v: %q", err, truncate(string(l), 200))
			return out, b.dead
		}
		if m["t"] == "idle" {
			return out, nil
		}
		if m["t"] == "error" {
			return out, fmt.Errorf("bridge error: %v", m["message"])
		}
		out = append(out, m)
	}
}

func truncate(s string, n int) string {
	if len(s) > n {
		return s[:n] + "…"
	}
	return s
}

// Load imports the world's TS modules (once per process).
func (b *TSBridge) Load(world, dir string) (*TSWorld, error) {
	if w := b.loaded[world]; w != nil {
		return w, nil
	}
	evs, err := b.Send(map[string]any{"t": "load", "world": world, "dir": dir})
	if err != nil {
		return nil, err
	}
	for _, e := range evs {
		if e["t"] == "loaded" {
			raw, _ := json.Marshal(e)
			var d struct {
				Modules []string             `json:"modules"`
				Errors  []string             `json:"errors"`
				Clients []string             `json:"clients"`
				Routes  map[string][]TSRoute `json:"routes"`
			}
			_ = json.Unmarshal(raw, &d)
			w := &TSWorld{Modules: d.Modules, Errors: d.Errors, Clients: d.Clients, Routes: d.Routes}
			b.loaded[world] = w
			return w, nil
		}
	}
	return nil, errors.New("bridge did not answer load")
}

func (b *TSBridge) EndRun() {
	if b == nil || b.dead != nil {
		return
	}
	_, _ = b.Send(map[string]any{"t": "reset"})
}

// TSPropName is the documented rule for typed header helper properties of the TS
// client: "X-API-Key" -> "apiKey".
func TSPropName(header string) string {
	name := strings.TrimPrefix(header, "X-")
	parts := strings.Split(name, "-")
	for i, p := range parts {
		if p == "" {
			continue
		}
		if i == 0 {
			parts[i] = strings.ToLower(p)
		} else {
			parts[i] = strings.ToUpper(p[:1]) + strings.ToLower(p[1:])
		}
	}
	return strings.Join(parts, "")
}

func lowerFirst(s string) string {
	if s == "" {
		return s
	}
	return strings.ToLower(s[:1]) + s[1:]
}

// contractJSON renders a message in the contract's canonical JSON form as a TS caller
// would write it (all declared properties present).
func contractJSON(m proto.Message) (json.RawMessage, error) {
	b, err := protojson.MarshalOptions{EmitUnpopulated: true}.Marshal(m)
	return json.RawMessage(b), err
}

// ---------- kernel side ----------

type tsPending struct {
	kind string // "fetch-result" | "serve" | "handle-result"
	call *CallState
	conn *Conn
	// fetch-result
	fid     json.Number
	status  int
	header  http.Header
	body    []byte
	netErr  string
	// serve, body-chunk
	req     *http.Request
	reqBody []byte
	stream  bool
	// handle
	hid    json.Number
	sid    int
	method string
}

func (k *Kernel) tsRequire() *TSBridge {
	if k.TS == nil {
		if globalBridge == nil {
			panic("sim: plan needs the TS bridge but it is not running")
		}
		k.TS = globalBridge
		if _, err := k.TS.Load(k.W.Name, os.Getenv("VERIF_WORLD_DIR")); err != nil {
			panic("sim: TS bridge load: " + err.Error())
		}
	}
	return k.TS
}

// tsStartCall issues a call through the generated TS client (kernel goroutine).
func (k *Kernel) tsStartCall(c *CallState) {
	b := k.tsRequire()
	svc, md := k.W.Method(c.Op.RPC)
	req := md.NewReq()
	if err := proto.Unmarshal(c.Op.ReqBin, req); err != nil {
		c.Err = err
		k.tsCallDone(c)
		return
	}
	c.Req = proto.Clone(req)
	rj, err := contractJSON(req)
	if err != nil {
		c.Err = fmt.Errorf("sim: request has no contract JSON form: %w", err)
		k.tsCallDone(c)
		return
	}
	clientOpts := map[string]any{}
	defaults := map[string]string{}
	if c.Op.ClientIdx < len(k.Plan.Clients) {
		for _, o := range k.Plan.Clients[c.Op.ClientIdx] {
			switch o.Kind {
			case "header":
				defaults[o.Key] = o.Value
			case "helper":
				clientOpts[TSPropName(o.Key)] = o.Value
			}
		}
	}
	if len(defaults) > 0 {
		clientOpts["defaultHeaders"] = defaults
	}
	callOpts := map[string]any{}
	hdrs := map[string]string{}
	for _, o := range c.Op.Opts {
		switch o.Kind {
		case "header":
			hdrs[o.Key] = o.Value
		case "helper":
			callOpts[TSPropName(o.Key)] = o.Value
		}
	}
	if len(hdrs) > 0 {
		callOpts["headers"] = hdrs
	}
	base := "http://" + baseHost + k.Plan.MountPrefix
	if k.Plan.BaseSlash {
		base += "/"
	}
	evs, err := b.Send(map[string]any{"t": "call", "world": k.W.Name, "id": c.Idx, "service": svc.Name, "method": lowerFirst(md.Name),
		"req": rj, "baseURL": base, "clientOptions": clientOpts, "callOptions": callOpts})
	if err != nil {
		panic("sim: bridge: " + err.Error())
	}
	k.tsEvents(evs)
}

// tsEvents processes events the bridge emitted in response to a stimulus.
func (k *Kernel) tsEvents(evs []map[string]any) {
	for _, e := range evs {
		switch e["t"] {
		case "fetch":
			k.tsOnFetch(e)
		case "callResult":
			k.tsOnCallResult(e)
		case "handle":
			k.tsOnHandle(e)
		case "served":
			k.tsOnServed(e)
		case "crash":
			k.TSCrashes = append(k.TSCrashes, fmt.Sprintf("%v: %v", e["kind"], e["message"]))
			k.Event("ts-crash", "%v", e["kind"])
		}
	}
}

func numInt(v any) int {
	switch x := v.(type) {
	case json.Number:
		n, _ := x.Int64()
		return int(n)
	case float64:
		return int(x)
	}
	return -1
}

func strMap(v any) map[string]string {
	out := map[string]string{}
	if m, ok := v.(map[string]any); ok {
		for k, x := range m {
			out[k] = fmt.Sprint(x)
		}
	}
	return out
}

// tsOnFetch: the TS client invoked fetch: put the request on the simulated link.
func (k *Kernel) tsOnFetch(e map[string]any) {
	id := numInt(e["id"])
	if id < 0 || id >= len(k.Calls) {
		return
	}
	c := k.Calls[id]
	u, err := url.Parse(fmt.Sprint(e["url"]))
	target := "/"
	if err == nil {
		target = u.RequestURI()
	}
	body, _ := base64.StdEncoding.DecodeString(fmt.Sprint(e["body"]))
	hasBody, _ := e["hasBody"].(bool)
	raw := &RawReq{Verb: fmt.Sprint(e["method"]), Target: target, Body: body, NoBody: !hasBody}
	hm := strMap(e["headers"])
	var names []string
	for n := range hm {
		names = append(names, n)
	}
	sort.Strings(names)
	for _, n := range names {
		raw.Headers = append(raw.Headers, [2]string{n, hm[n]})
	}
	wire := BuildRawRequest(raw)
	cn := k.newConn(c, wire, headLenOf(wire))
	cn.tsFid = e["fid"].(json.Number)
	cn.tsClient = true
	k.handle(kmsg{kind: "dial", conn: cn})
	// a reader task turns the delivered response bytes into a fetch result
	go func() {
		req, _ := http.NewRequest(raw.Verb, "http://"+baseHost+"/", nil)
		cn.s2c.pipe.ctx = c.ctx
		cn.s2c.pipe.done = c.ctx.Done()
		p := &tsPending{kind: "fetch-result", call: c, conn: cn, fid: cn.tsFid}
		resp, err := http.ReadResponse(bufio.NewReader(cn.s2c.pipe), req)
		if err != nil {
			p.netErr = err.Error()
		} else {
			p.status = resp.StatusCode
			p.header = resp.Header
			b, err := io.ReadAll(resp.Body)
			p.body = b
			if err != nil {
				p.netErr = err.Error()
			}
		}
		k.post(kmsg{kind: "ts", ts: p, ord: c.Idx})
	}()
}

func (k *Kernel) tsOnCallResult(e map[string]any) {
	id := numInt(e["id"])
	if id < 0 || id >= len(k.Calls) {
		return
	}
	c := k.Calls[id]
	if c.Returned {
		return
	}
	_, md := k.W.Method(c.Op.RPC)
	if ok, _ := e["ok"].(bool); ok {
		vb, _ := json.Marshal(e["value"])
		c.TSValue = vb
		resp := md.NewResp()
		if err := protojson.Unmarshal(vb, resp); err != nil {
			c.TSDecodeErr = fmt.Errorf("value returned by the TS client is not the contract JSON of %s: %v: %s", resp.ProtoReflect().Descriptor().FullName(), err, truncate(string(vb), 300))
		} else {
			c.Resp = resp
		}
	} else {
		em, _ := e["error"].(map[string]any)
		c.TSError = em
		kind := fmt.Sprint(em["kind"])
		switch kind {
		case "validation":
			ve := &sebufhttp.ValidationError{}
			if vs, ok := em["violations"].([]any); ok {
				for _, v := range vs {
					if vm, ok := v.(map[string]any); ok {
						ve.Violations = append(ve.Violations, &sebufhttp.FieldViolation{Field: fmt.Sprint(vm["field"]), Description: fmt.Sprint(vm["description"])})
					}
				}
			}
			c.Err = ve
		default:
			c.Err = fmt.Errorf("ts %s error %v: %v (status=%v body=%v)", kind, em["name"], em["message"], em["statusCode"], em["body"])
		}
	}
	k.tsCallDone(c)
}

func (k *Kernel) tsCallDone(c *CallState) {
	k.handle(kmsg{kind: "ret", call: c})
}

// tsHandlePending executes a queued bridge exchange (kernel goroutine).
func (k *Kernel) tsHandlePending(p *tsPending) {
	b := k.tsRequire()
	switch p.kind {
	case "fetch-result":
		msg := map[string]any{"t": "fetchResult", "fid": p.fid}
		if p.netErr != "" {
			msg["networkError"] = p.netErr
		} else {
			h := map[string]string{}
			for n, vs := range p.header {
				h[n] = strings.Join(vs, ", ")
			}
			msg["status"], msg["headers"], msg["body"] = p.status, h, base64.StdEncoding.EncodeToString(p.body)
		}
		evs, err := b.Send(msg)
		if err != nil {
			panic("sim: bridge: " + err.Error())
		}
		k.tsEvents(evs)
	case "serve":
		cn := p.conn
		h := map[string]string{}
		for n, vs := range p.req.Header {
			// header values are byte strings: hand them to JS as latin1 code points (what a
			// Node HTTP server does), not as UTF-8 text
			h[n] = latin1(strings.Join(vs, ", "))
		}
		evs, err := b.Send(map[string]any{"t": "serve", "world": k.W.Name, "sid": cn.id, "method": p.req.Method, "url": p.req.RequestURI,
			"headers": h, "body": base64.StdEncoding.EncodeToString(p.reqBody), "hasBody": p.stream || len(p.reqBody) > 0 || p.req.ContentLength > 0, "stream": p.stream})
		if err != nil {
			panic("sim: bridge: " + err.Error())
		}
		k.tsEvents(evs)
	case "body-chunk", "body-end", "body-error":
		msg := map[string]any{"sid": p.conn.id}
		switch p.kind {
		case "body-chunk":
			msg["t"], msg["data"] = "bodyChunk", base64.StdEncoding.EncodeToString(p.reqBody)
		case "body-end":
			msg["t"] = "bodyEnd"
		default:
			msg["t"], msg["message"] = "bodyError", p.netErr
		}
		evs, err := b.Send(msg)
		if err != nil {
			panic("sim: bridge: " + err.Error())
		}
		k.tsEvents(evs)
	}
}

// serveConnTS reads the request off the link; the kernel then hands it to the TS routes.
func (k *Kernel) serveConnTS(cn *Conn) {
	br := bufio.NewReader(cn.c2s.pipe)
	req, err := http.ReadRequest(br)
	if err != nil {
		cn.status = 400
		cn.s2c.send([]byte("HTTP/1.1 400 Bad Request\r\nContent-Length: 0\r\nConnection: close\r\n\r\n"))
		cn.s2c.senderEOF = true
		cn.serverDone = true
		k.post(kmsg{kind: "srvdone", conn: cn, ord: cn.call.Idx*1000 + cn.id})
		return
	}
	cn.ReqParsed = true
	if !k.stripMount(req) {
		cn.status = 404
		cn.WireHead = &WireReq{Verb: req.Method, Target: req.RequestURI, Header: req.Header.Clone(), ConnID: cn.id}
		cn.call.Wire = append(cn.call.Wire, *cn.WireHead)
		cn.s2c.send([]byte("HTTP/1.1 404 Not Found\r\nContent-Type: text/plain; charset=utf-8\r\nContent-Length: 21\r\n\r\ngateway: no such path"))
		cn.s2c.senderEOF = true
		cn.serverDone = true
		k.post(kmsg{kind: "srvdone", conn: cn, ord: cn.call.Idx*1000 + cn.id})
		return
	}
	hd := &WireReq{Verb: req.Method, Target: req.RequestURI, Header: req.Header.Clone(), ConnID: cn.id}
	cn.WireHead = hd
	hasBody := req.ContentLength != 0
	if !hasBody {
		cn.call.Wire = append(cn.call.Wire, *hd)
		k.post(kmsg{kind: "ts", ts: &tsPending{kind: "serve", call: cn.call, conn: cn, req: req}, ord: cn.call.Idx})
		return
	}
	// A request with a body is handed to the routes as soon as its head is complete, as a
	// Node server does; the body follows piece by piece, as the link delivers it. Each piece
	// is a kernel event of its own, so other requests can be served in between.
	k.post(kmsg{kind: "ts", ts: &tsPending{kind: "serve", call: cn.call, conn: cn, req: req, stream: true}, ord: cn.call.Idx})
	buf := make([]byte, 16<<10)
	var all []byte
	for {
		n, err := req.Body.Read(buf)
		if n > 0 {
			piece := append([]byte(nil), buf[:n]...)
			all = append(all, piece...)
			k.post(kmsg{kind: "ts", ts: &tsPending{kind: "body-chunk", call: cn.call, conn: cn, reqBody: piece}, ord: cn.call.Idx})
		}
		if err == io.EOF {
			hd.Body = all
			cn.call.Wire = append(cn.call.Wire, *hd)
			k.post(kmsg{kind: "ts", ts: &tsPending{kind: "body-end", call: cn.call, conn: cn}, ord: cn.call.Idx})
			return
		}
		if err != nil {
			// the platform reports the broken body to the route (the stream errors)
			hd.Body = all
			cn.call.Wire = append(cn.call.Wire, *hd)
			cn.BodyErr = err
			k.post(kmsg{kind: "ts", ts: &tsPending{kind: "body-error", call: cn.call, conn: cn, netErr: err.Error()}, ord: cn.call.Idx})
			return
		}
	}
}

// tsOnHandle: a TS route invoked the application handler.
func (k *Kernel) tsOnHandle(e map[string]any) {
	sid := numInt(e["sid"])
	if sid < 0 || sid >= len(k.conns) {
		return
	}
	cn := k.conns[sid]
	c := cn.call
	cn.Dispatched++
	svc := fmt.Sprint(e["service"])
	meth := fmt.Sprint(e["method"])
	// map the TS method name back to the RPC
	rpcKey := ""
	for _, m := range k.W.AllMethods() {
		if m.Service == svc && lowerFirst(m.Name) == meth {
			rpcKey = m.Key
		}
	}
	rb, _ := json.Marshal(e["req"])
	seen := Seen{RPC: rpcKey, Seq: k.seq, ConnID: cn.id, JSON: rb}
	if rpcKey != "" {
		_, md := k.W.Method(rpcKey)
		m := md.NewReq()
		if err := protojson.Unmarshal(rb, m); err != nil {
			seen.JSONErr = err.Error()
			seen.JSONErrField = jsonErrField(err.Error(), m)
		} else {
			seen.Req = m
		}
	}
	if hm, ok := e["headers"].(map[string]any); ok {
		seen.Headers = strMap(hm)
	}
	c.Seen = append(c.Seen, seen)
	k.Event("handler-enter", "op=%d rpc=%s conn=%d ts h=%s", c.Op.ID, rpcKey, cn.id, shortHash(rb))
	// the handler result is delivered at a later kernel event (a yield point)
	k.tsQueue = append(k.tsQueue, &tsPending{kind: "handle-result", call: c, conn: cn, hid: e["hid"].(json.Number), sid: sid, method: rpcKey})
}

// tsDeliverHandleResult answers a parked TS handler.
func (k *Kernel) tsDeliverHandleResult(p *tsPending) {
	b := k.tsRequire()
	c := p.call
	msg := map[string]any{"t": "handleResult", "hid": p.hid, "world": k.W.Name}
	var resp proto.Message
	var herr error
	if p.method == "" {
		herr = errors.New("sim: TS route invoked an unknown handler method")
	} else {
		resp, herr = k.App.behave(c.ctx, c, p.method, nil)
	}
	if !p.conn.dup {
		c.HandlerResp, c.HandlerErr = resp, herr
	}
	if herr != nil {
		em := map[string]any{"kind": "error", "message": herr.Error()}
		var ve *sebufhttp.ValidationError
		if errors.As(herr, &ve) {
			var vs []map[string]string
			for _, v := range ve.Violations {
				vs = append(vs, map[string]string{"field": v.Field, "description": v.Description})
			}
			em["kind"], em["violations"] = "validation", vs
		}
		msg["error"] = em
	} else {
		rj, err := contractJSON(resp)
		if err != nil {
			msg["error"] = map[string]any{"kind": "error", "message": "sim: response has no contract JSON: " + err.Error()}
		} else {
			msg["resp"] = rj
		}
	}
	k.Event("handler-exit", "op=%d err=%v ts", c.Op.ID, herr != nil)
	evs, err := b.Send(msg)
	if err != nil {
		panic("sim: bridge: " + err.Error())
	}
	k.tsEvents(evs)
}

// tsOnServed: the TS route produced a Response (or was not routed).
func (k *Kernel) tsOnServed(e map[string]any) {
	sid := numInt(e["sid"])
	if sid < 0 || sid >= len(k.conns) {
		return
	}
	cn := k.conns[sid]
	routed, _ := e["routed"].(bool)
	var out bytes.Buffer
	switch {
	case !routed:
		// what the hosting framework does for an unknown route
		cn.status = 404
		cn.TSUnrouted = true
		cn.TSMatches = numInt(e["matches"])
		out.WriteString("HTTP/1.1 404 Not Found\r\nContent-Type: text/plain\r\nContent-Length: 9\r\nX-Sim-Unrouted: 1\r\n\r\nnot found")
	case e["threw"] != nil || e["requestError"] != nil:
		cn.status = 500
		if cn.BodyErr == nil {
			// (a route that fails because the platform reported a broken request body is not at fault)
			cn.Panic = fmt.Sprintf("TS route handler rejected: %v%v", e["threw"], e["requestError"])
		}
		out.WriteString("HTTP/1.1 500 Internal Server Error\r\nContent-Length: 0\r\n\r\n")
	default:
		st := numInt(e["status"])
		cn.status = st
		body, _ := base64.StdEncoding.DecodeString(fmt.Sprint(e["body"]))
		text := http.StatusText(st)
		if text == "" {
			text = "Status"
		}
		fmt.Fprintf(&out, "HTTP/1.1 %d %s\r\n", st, text)
		hm := strMap(e["headers"])
		var names []string
		for n := range hm {
			names = append(names, n)
		}
		sort.Strings(names)
		for _, n := range names {
			if strings.EqualFold(n, "content-length") {
				continue
			}
			fmt.Fprintf(&out, "%s: %s\r\n", http.CanonicalHeaderKey(n), hm[n])
		}
		if bodyAllowed(st) {
			fmt.Fprintf(&out, "Content-Length: %d\r\n", len(body))
		}
		out.WriteString("\r\n")
		if bodyAllowed(st) {
			out.Write(body)
		}
	}
	b := out.Bytes()
	cn.Committed = true
	cn.s2c.send(b)
	cn.s2c.headLen = headLenOf(b)
	cn.serverDone = true
	k.Event("server-done", "conn=%d status=%d bytes=%d ts", cn.id, cn.status, len(b))
	if !cn.dup && len(cn.call.Conns) > 0 && cn.call.Conns[0] == cn {
		for i := range cn.call.Op.Faults {
			f := &cn.call.Op.Faults[i]
			if (f.Kind == "truncate" || f.Kind == "reset" || f.Kind == "stall") && f.Dir == "resp" && cn.s2c.fault == nil {
				cn.s2c.placeFault(f, cn.s2c.headLen, cn.s2c.total)
			}
		}
	}
}

var reErrField = regexp.MustCompile(`field ([A-Za-z0-9_]+)`)

// jsonErrField maps a protojson error ("invalid value for bool field name") to the
// proto field name of the message, "" when it cannot be told.
func jsonErrField(msg string, m proto.Message) string {
	mm := reErrField.FindStringSubmatch(msg)
	if mm == nil {
		return ""
	}
	fds := m.ProtoReflect().Descriptor().Fields()
	if fd := fds.ByJSONName(mm[1]); fd != nil {
		return string(fd.Name())
	}
	if fd := fds.ByName(protoreflect.Name(mm[1])); fd != nil {
		return string(fd.Name())
	}
	return ""
}

func latin1(s string) string {
	ascii := true
	for i := 0; i < len(s); i++ {
		if s[i] >= 0x80 {
			ascii = false
			break
		}
	}
	if ascii {
		return s
	}
	r := make([]rune, 0, len(s))
	for i := 0; i < len(s); i++ {
		r = append(r, rune(s[i]))
	}
	return string(r)
}
