package simrt

import (
	"bufio"
	"bytes"
	"fmt"
	"io"
	"net/http"
	"strconv"
	"strings"
	"time"

	"google.golang.org/protobuf/proto"
	"google.golang.org/protobuf/reflect/protoreflect"
	"pgregory.net/rapid"

	"verif/simrt/spec"
)

// parseResponse parses one framed HTTP response.
func parseResponse(wire []byte, verb string) (int, http.Header, []byte, error) {
	req, _ := http.NewRequest(verb, "http://"+baseHost+"/", nil)
	resp, err := http.ReadResponse(bufio.NewReader(bytes.NewReader(wire)), req)
	if err != nil {
		return 0, nil, nil, err
	}
	body, err := io.ReadAll(resp.Body)
	return resp.StatusCode, resp.Header, body, err
}

// ---------- seam for the generated mock's randomness (pass "rand") ----------

// MockIntn replaces math/rand.Intn in the scratch copy of the generated mock.
func MockIntn(n int) int {
	k := Current
	if k == nil || n <= 0 {
		return 0
	}
	v := 0
	if len(k.Plan.MockInts) > 0 {
		v = k.Plan.MockInts[k.mockIdx%len(k.Plan.MockInts)]
		k.mockIdx++
	}
	if v < 0 {
		v = -v
	}
	r := v % n
	k.Stats.Probe("mock_intn")
	if r == n-1 && n > 1 {
		k.Stats.Probe("mock_example_index_max")
	}
	return r
}

// MockSeed replaces math/rand.Seed (a no-op under simulation).
func MockSeed(int64) {}

// MockCryptoRead replaces crypto/rand.Read; the plan can make it fail.
func MockCryptoRead(b []byte) (int, error) {
	k := Current
	if k != nil && k.Plan.MockCryptoFail {
		k.Stats.fault("crypto-rand-fail")
		return 0, fmt.Errorf("sim: entropy source unavailable")
	}
	for i := range b {
		b[i] = byte(37*i + 11)
		if k != nil && len(k.Plan.MockInts) > 0 {
			b[i] ^= byte(k.Plan.MockInts[i%len(k.Plan.MockInts)])
		}
	}
	return len(b), nil
}

// MockNow replaces time.Now in the generated mock: the bubble's virtual clock.
func MockNow() time.Time { return time.Now() }

// C20: the mock server answers with contract-conformant examples.
type propC20 struct{}

func init() { RegisterProperty(propC20{}) }

func (propC20) ID() string      { return "C20" }
func (propC20) Modes() []string { return []string{"mock"} }

func (propC20) Draw(rt *rapid.T, w *WorldDesc, mode string) *Plan {
	p := &Plan{Race: true}
	methods := w.AllMethods()
	p.MockInts = rapid.SliceOfN(rapid.IntRange(0, 1000), 1, 24).Draw(rt, "mockInts")
	p.MockCryptoFail = rapid.IntRange(0, 4).Draw(rt, "cryptoFail") == 0
	ct := rapid.SampledFrom([]string{"application/json", "application/x-protobuf"}).Draw(rt, "ct")
	p.Clients = [][]Opt{{{Kind: "contentType", Value: ct}}}
	nOps := rapid.IntRange(1, 4).Draw(rt, "nOps")
	for i := 0; i < nOps; i++ {
		l := fmt.Sprintf("op%d", i)
		md := methods[rapid.IntRange(0, len(methods)-1).Draw(rt, l+".rpc")]
		rpc := w.RPC(md.Key)
		op := &Op{ID: i, RPC: md.Key, Client: "go", Server: "go", App: AppBehaviour{Kind: "mock"}}
		req := drawValidReq(rt, w, md, l+".req")
		op.ReqBin = mustMarshal(req)
		op.ReqJSON = jsonOf(req)
		op.Opts = drawHeaderOpts(rt, rpc, l+".hdr")
		op.ReqChunks = drawChunks(rt, l+".reqChunks")
		op.RespChunks = drawChunks(rt, l+".respChunks")
		p.Ops = append(p.Ops, op)
	}
	p.Schedule = drawSchedule(rt, 48)
	p.FreshMock = rapid.IntRange(0, 3).Draw(rt, "freshMock") == 0
	return p
}

// exampleViolation checks every field of m (recursively) that declares examples which
// all parse to the field's type: its value must be one of them.
func exampleViolation(w *WorldDesc, m protoreflect.Message, depth int) string {
	if depth > 6 {
		return ""
	}
	sm, _ := w.Spec().FindMessage("." + string(m.Descriptor().FullName()))
	if sm == nil {
		return ""
	}
	fds := m.Descriptor().Fields()
	for i := 0; i < fds.Len(); i++ {
		fd := fds.Get(i)
		sf := sm.Field(string(fd.Name()))
		if sf == nil {
			continue
		}
		if fd.Kind() == protoreflect.MessageKind && !fd.IsList() && !fd.IsMap() && m.Has(fd) {
			if v := exampleViolation(w, m.Get(fd).Message(), depth+1); v != "" {
				return v
			}
			continue
		}
		if fd.IsMap() && fd.MapValue().Kind() == protoreflect.MessageKind {
			bad := ""
			m.Get(fd).Map().Range(func(_ protoreflect.MapKey, mv protoreflect.Value) bool {
				if v := exampleViolation(w, mv.Message(), depth+1); v != "" && bad == "" {
					bad = v
				}
				return true
			})
			if bad != "" {
				return bad
			}
			continue
		}
		if len(sf.Examples) == 0 || fd.IsList() || fd.IsMap() || fd.ContainingOneof() != nil {
			continue
		}
		ok, all := exampleMember(fd, m.Get(fd), sf)
		if !all {
			continue // a list with unparsable entries only requires "no failure"
		}
		if !ok {
			return fmt.Sprintf("field %s.%s = %v is not one of its declared examples %q", sm.Name, sf.Name, m.Get(fd).Interface(), sf.Examples)
		}
	}
	return ""
}

// exampleMember reports (value is one of the parsed examples, every example parses).
func exampleMember(fd protoreflect.FieldDescriptor, v protoreflect.Value, sf *spec.Field) (bool, bool) {
	member, all := false, true
	for _, ex := range sf.Examples {
		switch fd.Kind() {
		case protoreflect.StringKind:
			if v.String() == ex {
				member = true
			}
		case protoreflect.Int32Kind, protoreflect.Int64Kind:
			n, err := strconv.ParseInt(ex, 10, 64)
			if err != nil {
				all = false
			} else if v.Int() == n {
				member = true
			}
		case protoreflect.BoolKind:
			b, err := strconv.ParseBool(ex)
			if err != nil {
				all = false
			} else if v.Bool() == b {
				member = true
			}
		case protoreflect.FloatKind, protoreflect.DoubleKind:
			f, err := strconv.ParseFloat(ex, 64)
			if err != nil {
				all = false
			} else if v.Float() == f {
				member = true
			}
		default:
			all = false
		}
	}
	return member, all
}

func (propC20) Check(k *Kernel, cov *Coverage) *Violation {
	if k.Race != nil && len(k.Race.Reports) > 0 {
		r := k.Race.Reports[0]
		return &Violation{Class: "mock-data-race", Signature: "C20|mock-data-race|" + r.Kind + "|" + siteFile(r.First),
			Detail: fmt.Sprintf("concurrent mock RPCs: unordered conflicting accesses (%s) at %s and %s", r.Kind, r.First, r.Second)}
	}
	for _, c := range k.Calls {
		rpc := k.W.RPC(c.Op.RPC)
		ct := effectiveCT(k.Plan, c.Op)
		sig := func(class, extra string) string {
			s := "C20|" + class + "|ct=" + ct
			if extra != "" {
				s += "|" + extra
			}
			return s
		}
		if k.ServerPanics > 0 {
			for _, cn := range k.conns {
				if cn.Panic != "" {
					return &Violation{Class: "mock-panic", Signature: sig("mock-panic", panicSite(cn.Panic)), Detail: cn.Panic}
				}
			}
		}
		if !c.Returned {
			return &Violation{Class: "call-hung", Signature: sig("call-hung", ""), Detail: fmt.Sprintf("op %d never returned", c.Op.ID)}
		}
		req := c.planReq(k)
		if ruleViolation(req) != nil || missingRequiredQuery(rpc, req) != nil {
			continue
		}
		if c.HandlerErr != nil {
			return &Violation{Class: "mock-returned-error", Signature: sig("mock-returned-error", ""),
				Detail: fmt.Sprintf("op %d %s: the mock answered a valid request %s with error %v (cryptoFail=%v)", c.Op.ID, c.Op.RPC, jsonOf(req), c.HandlerErr, k.Plan.MockCryptoFail)}
		}
		if len(c.Seen) == 0 {
			// the request never reached the mock: C01's business (e.g. required query on a body verb)
			cov.Tuple(k.W.Name, c.Op.RPC, "not-dispatched")
			continue
		}
		if c.Err != nil {
			st := 0
			if len(c.Conns) > 0 {
				st = c.Conns[len(c.Conns)-1].status
			}
			return &Violation{Class: "mock-response-not-served", Signature: sig("mock-response-not-served", fmt.Sprintf("status=%d", st)),
				Detail: fmt.Sprintf("op %d %s: mock returned %s but the call failed: %v", c.Op.ID, c.Op.RPC, jsonOf(c.HandlerResp), c.Err)}
		}
		if c.HandlerResp == nil || !proto.Equal(c.Resp, c.HandlerResp) {
			f := firstDiff(c.HandlerResp, c.Resp)
			return &Violation{Class: "mock-response-mismatch", Signature: sig("mock-response-mismatch", fieldShape(k.W, nil, rpc.Out, f)),
				Detail: fmt.Sprintf("op %d %s: mock returned %s, client decoded %s", c.Op.ID, c.Op.RPC, jsonOf(c.HandlerResp), jsonOf(c.Resp))}
		}
		if v := undefinedEnum(c.HandlerResp.ProtoReflect(), 0); v != "" {
			return &Violation{Class: "mock-undefined-enum", Signature: sig("mock-undefined-enum", ""),
				Detail: fmt.Sprintf("op %d %s: %s in the mock's answer %s", c.Op.ID, c.Op.RPC, v, jsonOf(c.HandlerResp))}
		}
		if v := exampleViolation(k.W, c.HandlerResp.ProtoReflect(), 0); v != "" {
			return &Violation{Class: "example-not-used", Signature: sig("example-not-used", ""),
				Detail: fmt.Sprintf("op %d %s: %s (mock ints %v)", c.Op.ID, c.Op.RPC, v, k.Plan.MockInts)}
		}
		ex := "noexamples"
		if strings.Contains(k.W.SpecJSON, `"examples"`) {
			ex = "examples"
		}
		cov.Tuple(k.W.Name, c.Op.RPC, "ct="+ct, ex, fmt.Sprintf("cryptoFail=%v", k.Plan.MockCryptoFail), "served")
	}
	return nil
}

// undefinedEnum: every enum value in the mock's answer must be a declared value of its
// enum (the published schema of an enum field is the list of its value names).
func undefinedEnum(m protoreflect.Message, depth int) string {
	if depth > 8 {
		return ""
	}
	bad := ""
	check := func(fd protoreflect.FieldDescriptor, v protoreflect.Value) {
		if fd.Kind() == protoreflect.EnumKind && fd.Enum().Values().ByNumber(v.Enum()) == nil && bad == "" {
			bad = fmt.Sprintf("field %s holds enum number %d, which %s does not declare", fd.FullName(), v.Enum(), fd.Enum().FullName())
		}
	}
	m.Range(func(fd protoreflect.FieldDescriptor, v protoreflect.Value) bool {
		switch {
		case fd.IsMap():
			v.Map().Range(func(_ protoreflect.MapKey, mv protoreflect.Value) bool {
				if fd.MapValue().Kind() == protoreflect.MessageKind {
					if b := undefinedEnum(mv.Message(), depth+1); b != "" && bad == "" {
						bad = b
					}
				} else {
					check(fd.MapValue(), mv)
				}
				return true
			})
		case fd.IsList():
			l := v.List()
			for i := 0; i < l.Len(); i++ {
				if fd.Kind() == protoreflect.MessageKind {
					if b := undefinedEnum(l.Get(i).Message(), depth+1); b != "" && bad == "" {
						bad = b
					}
				} else {
					check(fd, l.Get(i))
				}
			}
		case fd.Kind() == protoreflect.MessageKind:
			if b := undefinedEnum(v.Message(), depth+1); b != "" && bad == "" {
				bad = b
			}
		default:
			check(fd, v)
		}
		return true
	})
	return bad
}
