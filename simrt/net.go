package simrt

import (
	"bufio"
	"bytes"
	"context"
	"encoding/json"
	"errors"
	"fmt"
	"io"
	"net/http"
	"net/url"
	"os"
	"runtime/debug"
	"strconv"
	"strings"
	"sync"
	"time"
)

// ---------- pipe: the byte stream one side reads ----------

type pipe struct {
	mu   sync.Mutex
	buf  []byte
	err  error
	wake chan struct{}
	done <-chan struct{} // reader's context, may be nil
	ctx  context.Context
	// counters
	reads int
	nread int
}

func newPipe() *pipe { return &pipe{wake: make(chan struct{}, 1)} }

func (p *pipe) Read(b []byte) (int, error) {
	for {
		p.mu.Lock()
		if len(p.buf) > 0 {
			n := copy(b, p.buf)
			p.buf = p.buf[n:]
			p.reads++
			p.nread += n
			p.mu.Unlock()
			return n, nil
		}
		if p.err != nil {
			e := p.err
			p.mu.Unlock()
			return 0, e
		}
		p.mu.Unlock()
		if p.done != nil {
			select {
			case <-p.wake:
			case <-p.done:
				return 0, p.ctx.Err()
			}
		} else {
			<-p.wake
		}
	}
}

func (p *pipe) push(b []byte) {
	p.mu.Lock()
	p.buf = append(p.buf, b...)
	p.mu.Unlock()
	select {
	case p.wake <- struct{}{}:
	default:
	}
}

func (p *pipe) closeWith(err error) {
	p.mu.Lock()
	if p.err == nil {
		p.err = err
	}
	p.mu.Unlock()
	select {
	case p.wake <- struct{}{}:
	default:
	}
}

// ---------- link: one direction of a simulated connection ----------

type link struct {
	conn      *Conn
	dir       string // req | resp
	pending   []byte
	sent      []byte // everything handed to the link (for completeness judgement)
	total     int    // bytes handed to the link so far
	delivered int
	headLen   int // length of the header block of the first message (for fault placement)
	chunks    []int
	delays    []int
	ci        int
	nextAt    time.Duration
	pipe      *pipe
	fault     *Fault
	faultOff  int // absolute offset at which the fault fires (-1 none)
	stalled   bool
	senderEOF bool // sender finished; deliver EOF after the last byte
	eofSent   bool
	dead      bool  // fault closed the stream
	closeErr  error // error delivered instead of EOF when the sender is done
}

func (l *link) deliverable() bool {
	if l.stalled || l.dead {
		return false
	}
	if len(l.pending) > 0 {
		return true
	}
	if l.fault != nil && l.faultOff >= 0 && l.delivered >= l.faultOff && l.total > 0 {
		return true // fault fires exactly at the current position
	}
	return l.senderEOF && !l.eofSent
}

func (l *link) send(b []byte) {
	l.pending = append(l.pending, b...)
	l.sent = append(l.sent, b...)
	l.total += len(b)
}

func (l *link) deliver(k *Kernel) {
	// fault exactly here?
	if l.fault != nil && l.faultOff >= 0 && l.delivered >= l.faultOff {
		l.fire(k)
		return
	}
	n := len(l.pending)
	if len(l.chunks) > 0 {
		c := l.chunks[l.ci%len(l.chunks)]
		l.ci++
		if c > 0 && c < n {
			n = c
		}
	}
	if l.fault != nil && l.faultOff >= 0 && l.delivered+n > l.faultOff {
		n = l.faultOff - l.delivered
	}
	if n > 0 {
		chunk := l.pending[:n]
		l.pending = l.pending[n:]
		l.delivered += n
		// chunk contents are not part of the witness (see bagHash): only sizes are
		h := "-"
		if dumpBytes {
			h = fmt.Sprintf("%q", chunk)
		}
		k.Event("deliver", "conn=%d dir=%s n=%d h=%s", l.conn.id, l.dir, n, h)
		l.pipe.push(chunk)
	}
	if len(l.delays) > 0 {
		d := l.delays[(l.ci)%len(l.delays)]
		if d > 0 {
			l.nextAt = k.Now() + time.Duration(d)*time.Millisecond
		}
	}
	if len(l.pending) == 0 && l.senderEOF && !l.eofSent && (l.fault == nil || l.faultOff < 0 || l.delivered < l.faultOff) {
		l.eofSent = true
		if l.closeErr != nil {
			l.dead = true
			l.pipe.closeWith(l.closeErr)
		} else {
			l.pipe.closeWith(io.EOF)
		}
	}
}

var dumpBytes = os.Getenv("VERIF_DUMPBYTES") != ""

var errReset = errors.New("read tcp sim: connection reset by peer")

func (l *link) fire(k *Kernel) {
	f := l.fault
	l.faultOff = -1
	k.Stats.fault(f.Kind + "-" + l.dir)
	k.Event("fault", "%s conn=%d dir=%s at=%d", f.Kind, l.conn.id, l.dir, l.delivered)
	l.conn.faultFired = append(l.conn.faultFired, f.Kind+"-"+l.dir)
	switch f.Kind {
	case "truncate":
		l.dead = true
		l.pending = nil
		l.pipe.closeWith(io.EOF)
	case "reset":
		l.dead = true
		l.pending = nil
		l.pipe.closeWith(errReset)
	case "stall":
		l.stalled = true
	}
	if l.dir == "req" && f.Kind != "stall" {
		// the peer is gone: real servers cancel the request context
		if l.conn.srvCancel != nil {
			l.conn.srvCancel()
		}
	}
}

// placeFault computes the absolute fire offset once the message length is known.
func (l *link) placeFault(f *Fault, headLen, total int) {
	l.fault = f
	body := total - headLen
	if f.InHead {
		off := f.At
		if headLen > 0 {
			off = f.At % headLen
		}
		l.faultOff = off
		return
	}
	off := f.At
	if off > body {
		off = body
	}
	if off < 0 {
		off = 0
	}
	l.faultOff = headLen + off
}

// ---------- connection ----------

type Conn struct {
	id   int
	call *CallState
	c2s  *link
	s2c  *link

	accepted   bool
	dropped    bool
	dup        bool // second delivery of the same request bytes
	serverDone bool
	status     int
	srvCancel  context.CancelFunc
	faultFired []string
	sendClock  vclock
	tsFid      json.Number
	tsClient   bool
	TSUnrouted bool
	TSMatches  int
	respClock  vclock

	// server-side observations
	ReqParsed     bool
	BodyReads     int // Read calls on the request body made by the handler chain
	BodyBytes     int
	BodyErr       error
	BodyEOF       bool // the body reader reported a clean EOF (complete framed body)
	BodyReadsAtWH int  // BodyReads when the response status was committed
	Dispatched    int  // handler invocations on this connection
	Committed     bool
	Panic         string
	WireHead      *WireReq
	ReqBodyLen    int // bytes of request body handed to the link
}

func (cn *Conn) serverCanFinish() bool {
	return !cn.c2s.stalled && !cn.dropped
}

func (k *Kernel) newConn(call *CallState, reqBytes []byte, headLen int) *Conn {
	cn := &Conn{call: call}
	cn.c2s = &link{conn: cn, dir: "req", pipe: newPipe(), faultOff: -1, chunks: call.Op.ReqChunks, delays: call.Op.DelaysMs}
	cn.s2c = &link{conn: cn, dir: "resp", pipe: newPipe(), faultOff: -1, chunks: call.Op.RespChunks, delays: call.Op.DelaysMs}
	cn.c2s.send(reqBytes)
	cn.c2s.headLen = headLen
	cn.ReqBodyLen = len(reqBytes) - headLen
	return cn
}

// applyDialFaults places request-direction faults and handles drop / dup.
func (k *Kernel) applyDialFaults(cn *Conn) {
	if cn.dup {
		return
	}
	// only the first connection of a call carries the faults (redirect follow-ups are clean)
	if len(cn.call.Conns) > 1 {
		return
	}
	for i := range cn.call.Op.Faults {
		f := &cn.call.Op.Faults[i]
		switch {
		case f.Kind == "drop":
			cn.dropped = true
			cn.c2s.pending = nil
			k.Stats.fault("drop")
			k.Event("fault", "drop conn=%d", cn.id)
		case f.Kind == "dup":
			d := k.newConn(cn.call, append([]byte(nil), cn.c2s.pending...), cn.c2s.headLen)
			d.dup = true
			d.id = len(k.conns)
			k.conns = append(k.conns, d)
			cn.call.Conns = append(cn.call.Conns, d)
			k.Stats.fault("dup")
			k.Event("fault", "dup conn=%d as conn=%d", cn.id, d.id)
		case (f.Kind == "truncate" || f.Kind == "reset" || f.Kind == "stall") && f.Dir == "req":
			if cn.c2s.fault == nil {
				cn.c2s.placeFault(f, cn.c2s.headLen, cn.c2s.total)
			}
		}
	}
}

// ---------- client side: RoundTripper ----------

type simTransport struct{ k *Kernel }

func headLenOf(b []byte) int {
	i := bytes.Index(b, []byte("\r\n\r\n"))
	if i < 0 {
		return len(b)
	}
	return i + 4
}

func (t *simTransport) RoundTrip(req *http.Request) (*http.Response, error) {
	k := t.k
	call, _ := req.Context().Value(callKey).(*CallState)
	if call == nil {
		// generated code that does not pass the caller's context on: the request still belongs to
		// the call whose task is running (one task runs at a time), and it travels without the
		// caller's deadline and cancellation, exactly as it would in production
		call = k.curCall
		k.Stats.Probe("request_without_caller_context")
	}
	if call == nil {
		return nil, errors.New("sim: request without call id")
	}
	if err := req.Context().Err(); err != nil {
		return nil, err
	}
	var buf bytes.Buffer
	if err := req.Write(&buf); err != nil {
		return nil, fmt.Errorf("sim: serialising request: %w", err)
	}
	raw := buf.Bytes()
	cn := k.newConn(call, raw, headLenOf(raw))
	cn.s2c.pipe.ctx = req.Context()
	cn.s2c.pipe.done = req.Context().Done()
	k.post(kmsg{kind: "dial", conn: cn, ord: call.Idx})
	resp, err := http.ReadResponse(bufio.NewReader(cn.s2c.pipe), req)
	if err != nil {
		if ce := req.Context().Err(); ce != nil {
			return nil, ce
		}
		return nil, err
	}
	return resp, nil
}

// ---------- server side ----------

type countingBody struct {
	rc io.ReadCloser
	cn *Conn
}

func (b *countingBody) Read(p []byte) (int, error) {
	b.cn.BodyReads++
	n, err := b.rc.Read(p)
	b.cn.BodyBytes += n
	if err == io.EOF {
		b.cn.BodyEOF = true
	} else if err != nil {
		b.cn.BodyErr = err
	}
	return n, err
}

func (b *countingBody) Close() error { return b.rc.Close() }

func (k *Kernel) accept(cn *Conn) {
	switch cn.call.Op.Server {
	case "rogue":
		k.rogueRespond(cn)
		return
	case "ts":
		go k.serveConnTS(cn)
		return
	}
	go k.serveConn(cn)
}

func (k *Kernel) serveConn(cn *Conn) {
	defer func() {
		cn.serverDone = true
		k.post(kmsg{kind: "srvdone", conn: cn, ord: cn.call.Idx*1000 + cn.id})
	}()
	br := bufio.NewReader(cn.c2s.pipe)
	req, err := http.ReadRequest(br)
	if err != nil {
		// net/http answers 400 to an unparsable request head and closes
		cn.status = 400
		cn.s2c.send([]byte("HTTP/1.1 400 Bad Request\r\nContent-Type: text/plain; charset=utf-8\r\nConnection: close\r\n\r\n400 Bad Request"))
		cn.s2c.senderEOF = true
		return
	}
	cn.ReqParsed = true
	if !k.stripMount(req) {
		cn.status = 404
		cn.s2c.send([]byte("HTTP/1.1 404 Not Found\r\nContent-Type: text/plain; charset=utf-8\r\nContent-Length: 21\r\n\r\ngateway: no such path"))
		cn.s2c.senderEOF = true
		cn.WireHead = &WireReq{Verb: req.Method, Target: req.RequestURI, Header: req.Header.Clone(), ConnID: cn.id}
		cn.call.Wire = append(cn.call.Wire, *cn.WireHead)
		return
	}
	ctx, cancel := context.WithCancel(context.WithValue(context.Background(), callKey, cn.call))
	cn.srvCancel = cancel
	defer cancel()
	ctx = context.WithValue(ctx, connKey, cn)
	req = req.WithContext(ctx)
	req.RemoteAddr = "192.0.2.1:1234"
	req.Body = &countingBody{rc: req.Body, cn: cn}
	hd := &WireReq{Verb: req.Method, Target: req.RequestURI, Header: req.Header.Clone(), ConnID: cn.id}
	cn.WireHead = hd
	cn.call.Wire = append(cn.call.Wire, *hd)
	w := newRespWriter(k, cn, req)
	func() {
		defer func() {
			if r := recover(); r != nil {
				if r == http.ErrAbortHandler {
					return
				}
				cn.Panic = fmt.Sprintf("%v\n%s", r, trimStack(debug.Stack()))
				k.ServerPanics++
				w.aborted = true
			}
		}()
		if d := k.Plan.ServerDeadlineMs; d < 0 {
			// the request context is already done when the routes see the request (a timeout
			// handler that fired, a caller that went away): the routes owe the same decisions
			ctx, cancel := context.WithCancel(req.Context())
			cancel()
			req = req.WithContext(ctx)
		} else if d > 0 {
			ctx, cancel := context.WithTimeout(req.Context(), time.Duration(d)*time.Millisecond)
			defer cancel()
			req = req.WithContext(ctx)
		}
		k.mux.ServeHTTP(w, req)
	}()
	if w.aborted {
		// http.Server closes the connection without a response
		cn.s2c.senderEOF = true
		return
	}
	if w.broken {
		cn.status = w.status
		cn.s2c.closeErr = errReset
		cn.s2c.senderEOF = true
		return
	}
	out := w.frame()
	cn.status = w.status
	cn.s2c.send(out)
	cn.s2c.headLen = headLenOf(out)
	// response-direction faults
	if !cn.dup && len(cn.call.Conns) > 0 && cn.call.Conns[0] == cn {
		for i := range cn.call.Op.Faults {
			f := &cn.call.Op.Faults[i]
			if (f.Kind == "truncate" || f.Kind == "reset" || f.Kind == "stall") && f.Dir == "resp" && cn.s2c.fault == nil {
				cn.s2c.placeFault(f, cn.s2c.headLen, cn.s2c.total)
			}
		}
	}
}

const connKey ctxKey = 2

func trimStack(b []byte) string {
	s := string(b)
	if len(s) > 1500 {
		s = s[:1500]
	}
	return s
}

// respWriter mimics net/http's ResponseWriter for small responses: headers are
// snapshotted at WriteHeader, a missing Content-Type is sniffed from the first
// write, the body is buffered and framed with Content-Length when the handler
// returns.
type respWriter struct {
	k       *Kernel
	cn      *Conn
	req     *http.Request
	hdr     http.Header
	snap    http.Header
	status  int
	wrote   bool
	body    bytes.Buffer
	aborted bool
	flushed bool // the handler flushed before it returned: net/http can no longer announce a length
	broken  bool // a Write failed: the connection is gone, nothing reaches the client
	// write-error fault
	failAt int // -1 none
}

func newRespWriter(k *Kernel, cn *Conn, req *http.Request) *respWriter {
	w := &respWriter{k: k, cn: cn, req: req, hdr: http.Header{}, failAt: -1}
	if !cn.dup {
		for _, f := range cn.call.Op.Faults {
			if f.Kind == "write-error" {
				w.failAt = f.At
			}
		}
	}
	return w
}

func (w *respWriter) Header() http.Header { return w.hdr }

func (w *respWriter) WriteHeader(code int) {
	if w.wrote {
		return
	}
	if code < 100 || code > 999 {
		panic(fmt.Sprintf("invalid WriteHeader code %v", code))
	}
	if code >= 100 && code <= 199 && code != 101 {
		return // informational; ignored by the simulation
	}
	w.wrote = true
	w.status = code
	w.snap = w.hdr.Clone()
	w.cn.Committed = true
	w.cn.BodyReadsAtWH = w.cn.BodyReads
	w.k.Event("resp-commit", "conn=%d status=%d", w.cn.id, code)
}

func bodyAllowed(status int) bool {
	switch {
	case status >= 100 && status <= 199:
		return false
	case status == 204, status == 304:
		return false
	}
	return true
}

func (w *respWriter) Write(b []byte) (int, error) {
	if !w.wrote {
		w.WriteHeader(200)
	}
	if !bodyAllowed(w.status) {
		return 0, http.ErrBodyNotAllowed
	}
	if w.k.Plan.Race || w.k.Plan.SlowWrites {
		// a ResponseWriter may block before it consumes p (slow peer): a pre-emption point
		w.k.Yield(w.cn.call, "write")
	}
	if w.failAt >= 0 && w.body.Len()+len(b) > w.failAt {
		n := w.failAt - w.body.Len()
		if n < 0 {
			n = 0
		}
		w.body.Write(b[:n])
		w.k.Stats.fault("write-error")
		w.k.Event("fault", "write-error conn=%d at=%d", w.cn.id, w.body.Len())
		w.broken = true
		w.cn.faultFired = append(w.cn.faultFired, "write-error")
		return n, errors.New("write tcp sim: broken pipe")
	}
	if w.body.Len() == 0 && len(b) > 0 {
		if _, ok := w.snap["Content-Type"]; !ok && w.snap.Get("Content-Encoding") == "" {
			w.snap.Set("Content-Type", http.DetectContentType(b))
		}
	}
	if w.req.Method == "HEAD" {
		return len(b), nil
	}
	w.body.Write(b)
	return len(b), nil
}

// WriteString and Flush: net/http's ResponseWriter implements io.StringWriter and
// http.Flusher, and wrappers in generated code may look for them.
func (w *respWriter) WriteString(s string) (int, error) { return w.Write([]byte(s)) }

func (w *respWriter) Flush() {
	if !w.wrote {
		w.WriteHeader(http.StatusOK)
	}
	w.flushed = true
}

// respBufSize is net/http's per-connection response buffer: a response that fits in it
// when the handler returns is sent with a Content-Length, a larger (or flushed) one goes out
// in chunked transfer encoding unless the handler announced a length itself.
const respBufSize = 2048

func (w *respWriter) frame() []byte {
	if !w.wrote {
		w.WriteHeader(200)
	}
	var out bytes.Buffer
	text := http.StatusText(w.status)
	if text == "" {
		text = "status code " + strconv.Itoa(w.status)
	}
	fmt.Fprintf(&out, "HTTP/1.1 %d %s\r\n", w.status, text)
	h := w.snap.Clone()
	chunked := false
	if bodyAllowed(w.status) {
		if h.Get("Content-Length") == "" && (w.body.Len() > respBufSize || w.flushed) && w.req.Method != "HEAD" && w.req.ProtoAtLeast(1, 1) {
			chunked = true
			h.Set("Transfer-Encoding", "chunked")
			w.k.Stats.Probe("response_sent_chunked")
		} else {
			h.Set("Content-Length", strconv.Itoa(w.body.Len()))
		}
	} else {
		h.Del("Content-Length")
	}
	if h.Get("Date") == "" {
		h.Set("Date", "Thu, 01 Jan 2026 00:00:00 GMT")
	}
	var keys []string
	for k := range h {
		keys = append(keys, k)
	}
	sortStrings(keys)
	for _, kk := range keys {
		for _, v := range h[kk] {
			v = strings.NewReplacer("\r", " ", "\n", " ").Replace(v)
			fmt.Fprintf(&out, "%s: %s\r\n", kk, v)
		}
	}
	out.WriteString("\r\n")
	if bodyAllowed(w.status) && w.req.Method != "HEAD" {
		if chunked {
			b := w.body.Bytes()
			for len(b) > 0 {
				n := respBufSize
				if n > len(b) {
					n = len(b)
				}
				fmt.Fprintf(&out, "%x\r\n", n)
				out.Write(b[:n])
				out.WriteString("\r\n")
				b = b[n:]
			}
			out.WriteString("0\r\n\r\n")
		} else {
			out.Write(w.body.Bytes())
		}
	}
	return out.Bytes()
}

func sortStrings(s []string) {
	for i := 1; i < len(s); i++ {
		for j := i; j > 0 && s[j] < s[j-1]; j-- {
			s[j], s[j-1] = s[j-1], s[j]
		}
	}
}

// rogueRespond replaces the server by a scripted upstream.
func (k *Kernel) rogueRespond(cn *Conn) {
	r := cn.call.Op.Rogue
	cn.serverDone = true
	if r == nil {
		cn.s2c.senderEOF = true
		return
	}
	var out bytes.Buffer
	if r.RawBytes != nil {
		out.Write(r.RawBytes)
	} else {
		text := http.StatusText(r.Status)
		if text == "" {
			text = "Status"
		}
		fmt.Fprintf(&out, "HTTP/1.1 %d %s\r\n", r.Status, text)
		hasCL := false
		for _, h := range r.Headers {
			if strings.EqualFold(h[0], "Content-Length") {
				hasCL = true
			}
			fmt.Fprintf(&out, "%s: %s\r\n", h[0], h[1])
		}
		if !hasCL && bodyAllowed(r.Status) {
			fmt.Fprintf(&out, "Content-Length: %d\r\n", len(r.Body)+r.BadLength)
		}
		out.WriteString("\r\n")
		out.Write(r.Body)
	}
	b := out.Bytes()
	cn.status = r.Status
	cn.s2c.send(b)
	cn.s2c.headLen = headLenOf(b)
	cn.s2c.senderEOF = true
	k.Stats.fault("rogue-upstream")
	for i := range cn.call.Op.Faults {
		f := &cn.call.Op.Faults[i]
		if (f.Kind == "truncate" || f.Kind == "reset" || f.Kind == "stall") && f.Dir == "resp" && cn.s2c.fault == nil {
			cn.s2c.placeFault(f, cn.s2c.headLen, cn.s2c.total)
		}
	}
}

// responseComplete reports whether the bytes actually delivered on a response link
// contain one complete framed HTTP response (status line, headers and the body the
// framing announces).
func (l *link) responseComplete(method string) (complete bool, status int) {
	d := l.sent
	if l.delivered < len(d) {
		d = d[:l.delivered]
	}
	req, _ := http.NewRequest(method, "http://"+baseHost+"/", nil)
	resp, err := http.ReadResponse(bufio.NewReader(bytes.NewReader(d)), req)
	if err != nil {
		return false, 0
	}
	_, err = io.Copy(io.Discard, resp.Body)
	if err != nil {
		return false, resp.StatusCode
	}
	if resp.ContentLength < 0 && len(resp.TransferEncoding) == 0 && bodyAllowed(resp.StatusCode) && method != "HEAD" {
		// close-delimited body: complete only if the sender's EOF (not a fault) ended it
		return l.eofSent && !l.dead, resp.StatusCode
	}
	return true, resp.StatusCode
}

// Committed400 reports whether the handler chain itself committed a 400.
func (cn *Conn) Committed400() bool { return cn.Committed && cn.status == 400 }

// stripMount plays the gateway in front of the servers: a request under Plan.MountPrefix is
// passed on with the prefix removed, anything else is not for these servers.
func (k *Kernel) stripMount(req *http.Request) bool {
	p := k.Plan.MountPrefix
	if p == "" {
		return true
	}
	uri := req.RequestURI
	if !strings.HasPrefix(uri, p) {
		return false
	}
	rest := uri[len(p):]
	if rest == "" || rest[0] == '?' {
		rest = "/" + rest
	}
	if rest[0] != '/' {
		return false
	}
	u, err := url.ParseRequestURI(rest)
	if err != nil {
		return false
	}
	req.RequestURI = rest
	req.URL = u
	k.Stats.Probe("gateway_prefix_stripped")
	return true
}
