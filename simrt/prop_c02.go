package simrt

import (
	"fmt"
	"math"
	"net/url"
	"strings"

	sebufhttp "github.com/SebastienMelki/sebuf/http"
	"google.golang.org/protobuf/encoding/protojson"
	"google.golang.org/protobuf/proto"
	"google.golang.org/protobuf/reflect/protoreflect"
	"pgregory.net/rapid"

	"verif/simrt/spec"
)

// C02: URL-carried fields reach the handler with the URL's value, for every verb.
type propC02 struct{}

func init() { RegisterProperty(propC02{}) }

func (propC02) ID() string      { return "C02" }
func (propC02) Modes() []string { return []string{"binding"} }

// urlCase is what the plan's op carries for the oracle (stored in Op.App.Fields as
// "key=value" notes so that replays are self-contained).
//   bad=<field>     : this URL-bound field carries an unconvertible value
//   missing=<field> : a required query parameter was left out
//   body=<kind>     : absent | empty | braces | omitting | full-other
func noteOf(op *Op, key string) string {
	for _, f := range op.Notes {
		if strings.HasPrefix(f, key+"=") {
			return strings.TrimPrefix(f, key+"=")
		}
	}
	return ""
}

func urlMethods(w *WorldDesc) []*MethodDesc {
	var out []*MethodDesc
	for _, m := range w.AllMethods() {
		r := w.RPC(m.Key)
		if r != nil && r.PathKnown && (len(r.PathVars) > 0 || len(r.Query) > 0) {
			out = append(out, m)
		}
	}
	return out
}

// badValueFor returns a string the field's type cannot be converted from.
func badValueFor(rt *rapid.T, fd protoreflect.FieldDescriptor, label string) (string, bool) {
	switch fd.Kind() {
	case protoreflect.StringKind:
		return "", false // every string converts
	case protoreflect.BoolKind:
		return rapid.SampledFrom([]string{"maybe", "yes!", "2x", "tru"}).Draw(rt, label), true
	case protoreflect.Int32Kind, protoreflect.Sint32Kind, protoreflect.Sfixed32Kind:
		return rapid.SampledFrom([]string{"abc", "1.5", "2147483648", "-2147483649", "1e3", "0x10", "12a", "--1"}).Draw(rt, label), true
	case protoreflect.Int64Kind, protoreflect.Sint64Kind, protoreflect.Sfixed64Kind:
		return rapid.SampledFrom([]string{"abc", "1.5", "9223372036854775808", "-9223372036854775809", "1e3", "12a"}).Draw(rt, label), true
	case protoreflect.Uint32Kind, protoreflect.Fixed32Kind:
		return rapid.SampledFrom([]string{"abc", "-1", "4294967296", "1.5"}).Draw(rt, label), true
	case protoreflect.Uint64Kind, protoreflect.Fixed64Kind:
		return rapid.SampledFrom([]string{"abc", "-1", "18446744073709551616", "1.5"}).Draw(rt, label), true
	case protoreflect.FloatKind:
		// (a finite decimal beyond the float32 range does not convert either)
		return rapid.SampledFrom([]string{"abc", "1,5", "--1", "1e", "0x", "1e39", "-3.5e38"}).Draw(rt, label), true
	case protoreflect.DoubleKind:
		return rapid.SampledFrom([]string{"abc", "1,5", "--1", "1e", "0x", "1e309"}).Draw(rt, label), true
	}
	return "", false
}

func (propC02) Draw(rt *rapid.T, w *WorldDesc, mode string) *Plan {
	p := &Plan{}
	methods := urlMethods(w)
	if len(methods) == 0 {
		return p
	}
	nOps := rapid.IntRange(1, 3).Draw(rt, "nOps")
	sameRoute := rapid.Bool().Draw(rt, "sameRoute")
	p.Sequential = sameRoute
	for i := 0; i < nOps; i++ {
		l := fmt.Sprintf("op%d", i)
		md := methods[rapid.IntRange(0, len(methods)-1).Draw(rt, l+".rpc")]
		if i > 0 && sameRoute {
			_, md = w.Method(p.Ops[0].RPC) // a second request on the same route (state left by the first must not show)
		}
		rpc := w.RPC(md.Key)
		op := &Op{ID: i, RPC: md.Key, Client: "raw", Server: drawServer(rt, l+".server"), App: AppBehaviour{Kind: "respond"}}
		if i > 0 && sameRoute {
			op.Server = p.Ops[0].Server
		}
		req := drawValidReq(rt, w, md, l+".req")
		if op.Server == "ts" {
			scrubNonFinite(req.ProtoReflect(), 0)
		}
		// URL-bound float fields: NaN has no equality; keep them finite so the oracle can compare
		scrubNaN(req, rpc)
		ct := rapid.SampledFrom([]string{"application/json", "application/json", "application/x-protobuf", ""}).Draw(rt, l+".ct")
		if op.Server == "ts" {
			ct = "application/json"
		}
		hdrs := ValidHeaders(rpc, i)
		target, err := BuildTarget(rpc, req, rapid.Bool().Draw(rt, l+".queryAll"))
		if err != nil {
			continue
		}
		raw := &RawReq{Verb: rpc.Verb, Target: target}
		if ct != "" {
			raw.Headers = append(raw.Headers, [2]string{"Content-Type", ct})
		}
		raw.Headers = append(raw.Headers, hdrs...)
		// expected handler-visible message
		want := proto.Clone(req)
		bodyKind := "absent"
		if rpc.HasBody {
			bodyKind = rapid.SampledFrom([]string{"absent", "empty", "braces", "omitting", "omitting", "full-other"}).Draw(rt, l+".body")
		}
		fam := ctFamily(ct)
		urlOnly := func() proto.Message {
			m := proto.Clone(req)
			r := m.ProtoReflect()
			fds := r.Descriptor().Fields()
			for j := 0; j < fds.Len(); j++ {
				if !rpc.IsURLBound(string(fds.Get(j).Name())) {
					r.Clear(fds.Get(j))
				}
			}
			return m
		}
		switch bodyKind {
		case "absent":
			raw.NoBody = true
			want = urlOnly()
		case "empty":
			raw.Body = nil
			want = urlOnly()
		case "braces":
			if fam == "json" {
				raw.Body = []byte("{}")
			} else {
				raw.Body = nil
			}
			want = urlOnly()
		case "omitting":
			raw.Body, _ = EncodeBody(BodyMessage(rpc, req), fam)
		case "full-other":
			// a body with other fields only (drawn independently of the URL-bound ones)
			other := drawValidReq(rt, w, md, l+".other")
			if op.Server == "ts" {
				scrubNonFinite(other.ProtoReflect(), 0)
			}
			bm := BodyMessage(rpc, other)
			raw.Body, _ = EncodeBody(bm, fam)
			want = proto.Clone(bm)
			mergeFrom(want, urlOnly(), rpc)
		}
		if len(raw.Body) > 0 && !raw.NoBody && rapid.IntRange(0, 4).Draw(rt, l+".chunked") == 0 {
			raw.Chunked = true // no Content-Length: the server learns the body's length only by reading it
		}
		op.Notes = append(op.Notes, "body="+bodyKind)
		// URL perturbation
		switch rapid.IntRange(0, 5).Draw(rt, l+".urlcase") {
		case 0, 1: // unconvertible value on one URL-bound field
			names := append(append([]string{}, rpc.PathVars...), queryFields(rpc)...)
			f := names[rapid.IntRange(0, len(names)-1).Draw(rt, l+".badfield")]
			fd := req.ProtoReflect().Descriptor().Fields().ByName(protoreflect.Name(f))
			if bad, ok := badValueFor(rt, fd, l+".badval"); ok && !fd.IsList() {
				raw.Target = replaceURLValue(rpc, raw.Target, req, f, bad)
				op.Notes = append(op.Notes, "bad="+f)
			}
		case 3: // another decimal spelling of the same integer (leading zeros): still that value
			names := append(append([]string{}, rpc.PathVars...), queryFields(rpc)...)
			f := names[rapid.IntRange(0, len(names)-1).Draw(rt, l+".padfield")]
			fd := req.ProtoReflect().Descriptor().Fields().ByName(protoreflect.Name(f))
			if fd != nil && !fd.IsList() && req.ProtoReflect().Has(fd) {
				switch fd.Kind() {
				case protoreflect.Int32Kind, protoreflect.Sint32Kind, protoreflect.Sfixed32Kind, protoreflect.Int64Kind, protoreflect.Sint64Kind, protoreflect.Sfixed64Kind,
					protoreflect.Uint32Kind, protoreflect.Fixed32Kind, protoreflect.Uint64Kind, protoreflect.Fixed64Kind:
					v := ScalarString(fd, req.ProtoReflect().Get(fd))
					sign := ""
					if strings.HasPrefix(v, "-") {
						sign, v = "-", v[1:]
					}
					pad := strings.Repeat("0", rapid.SampledFrom([]int{1, 2, 12, 24}).Draw(rt, l+".pad"))
					raw.Target = replaceURLValue(rpc, raw.Target, req, f, sign+pad+v)
					op.Notes = append(op.Notes, "padded="+f)
				}
			}
		case 2: // leave out a required query parameter
			for _, q := range rpc.Query {
				if q.Required {
					raw.Target = dropQuery(raw.Target, q.Name)
					op.Notes = append(op.Notes, "missing="+q.Field)
					break
				}
			}
		}
		op.Raw = raw
		op.ReqBin = mustMarshal(want) // the handler-visible message the contract predicts
		op.ReqJSON = jsonOf(want)
		op.RespBin = mustMarshal(md.NewResp())
		op.ReqChunks = drawChunks(rt, l+".reqChunks")
		op.DelaysMs = drawDelays(rt, l+".delays")
		op.DeadlineMs = 3600000 // virtual time is free: a slowly delivered request must not run into the caller's own deadline
		p.Ops = append(p.Ops, op)
	}
	p.Schedule = drawSchedule(rt, 32)
	return p
}

func queryFields(rpc *spec.RPC) []string {
	var out []string
	for _, q := range rpc.Query {
		out = append(out, q.Field)
	}
	return out
}

func scrubNaN(req proto.Message, rpc *spec.RPC) {
	m := req.ProtoReflect()
	fds := m.Descriptor().Fields()
	for i := 0; i < fds.Len(); i++ {
		fd := fds.Get(i)
		if !rpc.IsURLBound(string(fd.Name())) || fd.IsList() {
			continue
		}
		if fd.Kind() == protoreflect.FloatKind || fd.Kind() == protoreflect.DoubleKind {
			f := m.Get(fd).Float()
			if math.IsNaN(f) {
				if fd.Kind() == protoreflect.FloatKind {
					m.Set(fd, protoreflect.ValueOfFloat32(1.25))
				} else {
					m.Set(fd, protoreflect.ValueOfFloat64(1.25))
				}
			}
		}
	}
}

// mergeFrom copies the URL-bound fields of src into dst.
func mergeFrom(dst, src proto.Message, rpc *spec.RPC) {
	d, s := dst.ProtoReflect(), src.ProtoReflect()
	fds := s.Descriptor().Fields()
	for i := 0; i < fds.Len(); i++ {
		fd := fds.Get(i)
		if rpc.IsURLBound(string(fd.Name())) {
			if s.Has(fd) {
				d.Set(fd, s.Get(fd))
			} else {
				d.Clear(fd)
			}
		}
	}
}

// replaceURLValue rebuilds the target with field f carrying the raw string bad.
func replaceURLValue(rpc *spec.RPC, target string, req proto.Message, f, bad string) string {
	for _, v := range rpc.PathVars {
		if v == f {
			// rebuild the path with the bad segment
			m := req.ProtoReflect()
			path := rpc.Path
			for _, pv := range rpc.PathVars {
				fd := m.Descriptor().Fields().ByName(protoreflect.Name(pv))
				val := url.PathEscape(ScalarString(fd, m.Get(fd)))
				if pv == f {
					val = url.PathEscape(bad)
				}
				path = strings.Replace(path, "{"+pv+"}", val, 1)
			}
			if i := strings.Index(target, "?"); i >= 0 {
				return path + target[i:]
			}
			return path
		}
	}
	for _, q := range rpc.Query {
		if q.Field == f {
			t := dropQuery(target, q.Name)
			sep := "?"
			if strings.Contains(t, "?") {
				sep = "&"
			}
			return t + sep + url.QueryEscape(q.Name) + "=" + url.QueryEscape(bad)
		}
	}
	return target
}

func dropQuery(target, name string) string {
	i := strings.Index(target, "?")
	if i < 0 {
		return target
	}
	var keep []string
	for _, kv := range strings.Split(target[i+1:], "&") {
		k := kv
		if j := strings.Index(kv, "="); j >= 0 {
			k = kv[:j]
		}
		if dk, err := url.QueryUnescape(k); err == nil && dk == name {
			continue
		}
		keep = append(keep, kv)
	}
	if len(keep) == 0 {
		return target[:i]
	}
	return target[:i] + "?" + strings.Join(keep, "&")
}

func decodeValidation(c *CallState) (*sebufhttp.ValidationError, error) {
	ve := &sebufhttp.ValidationError{}
	rct := c.RespHeader.Get("Content-Type")
	if strings.HasPrefix(rct, "application/x-protobuf") {
		return ve, proto.Unmarshal(c.RespBody, ve)
	}
	return ve, protojson.Unmarshal(c.RespBody, ve)
}

func (propC02) Check(k *Kernel, cov *Coverage) *Violation {
	for _, c := range k.Calls {
		if c.Op.Raw == nil {
			continue
		}
		rpc := k.W.RPC(c.Op.RPC)
		fam := ctFamily(headerOf(c.Op.Raw, "Content-Type"))
		body := noteOf(c.Op, "body")
		sig := func(class, extra string) string {
			s := "C02|" + class + "|" + c.Op.Server + "|fam=" + fam + "|body=" + body
			if extra != "" {
				s += "|" + extra
			}
			return s
		}
		if len(c.Conns) == 0 || c.Conns[0].Panic != "" {
			p := ""
			if len(c.Conns) > 0 {
				p = c.Conns[0].Panic
			}
			return &Violation{Class: "server-panic", Signature: sig("server-panic", panicSite(p)), Detail: p}
		}
		if !c.Returned || c.RespErr != nil {
			return &Violation{Class: "no-response", Signature: sig("no-response", ""), Detail: fmt.Sprintf("op %d %s %s: no response (%v)", c.Op.ID, c.Op.Raw.Verb, c.Op.Raw.Target, c.RespErr)}
		}
		bad, missing := noteOf(c.Op, "bad"), noteOf(c.Op, "missing")
		if bad != "" || missing != "" {
			f := bad
			what := "unconvertible value for"
			if f == "" {
				f, what = missing, "missing required query parameter bound to"
			}
			shape := fieldShape(k.W, rpc, rpc.In, f)
			if c.Status != 400 || len(c.Seen) != 0 {
				return &Violation{Class: "bad-url-value-accepted", Signature: "C02|bad-url-value-accepted|" + c.Op.Server + "|" + placeOf(shape),
					Detail: fmt.Sprintf("op %d %s %s: %s field %q, want 400 and no dispatch; got status %d, dispatched=%d seen=%s", c.Op.ID, c.Op.Raw.Verb, c.Op.Raw.Target, what, f, c.Status, len(c.Seen), seenAll(c))}
			}
			ve, err := decodeValidation(c)
			named := false
			if err == nil {
				for _, v := range ve.GetViolations() {
					if v.GetField() == f {
						named = true
					}
				}
			}
			if !named {
				return &Violation{Class: "violation-not-named", Signature: sig("violation-not-named", shape),
					Detail: fmt.Sprintf("op %d %s %s: 400 does not carry a violation naming field %q: body=%q err=%v", c.Op.ID, c.Op.Raw.Verb, c.Op.Raw.Target, f, truncBytes(c.RespBody), err)}
			}
			cov.Tuple(k.W.Name, c.Op.RPC, c.Op.Server, "fam="+fam, "body="+body, "rejected", shape)
			continue
		}
		// all URL values convertible and required parameters present
		want := k.W.newReq(c.Op.RPC)
		if err := proto.Unmarshal(c.Op.ReqBin, want); err != nil {
			continue
		}
		if ruleViolation(want) != nil && c.Op.Server == "go" {
			// the merged message breaks a validation rule: 400 is the documented outcome
			if c.Status == 400 && len(c.Seen) == 0 {
				cov.Tuple(k.W.Name, c.Op.RPC, c.Op.Server, "rule-rejected")
				continue
			}
		}
		if c.Status != 200 || len(c.Seen) != 1 {
			return &Violation{Class: "valid-request-not-dispatched", Signature: sig("valid-request-not-dispatched", fmt.Sprintf("status=%d", c.Status)),
				Detail: fmt.Sprintf("op %d %s %s body=%q: want dispatch with %s; got status %d dispatched=%d resp=%q", c.Op.ID, c.Op.Raw.Verb, c.Op.Raw.Target, truncBytes(c.Op.Raw.Body), jsonOf(want), c.Status, len(c.Seen), truncBytes(c.RespBody))}
		}
		got := c.Seen[0].Req
		if got == nil {
			return &Violation{Class: "ts-handler-input-not-contract-json", Signature: sig("ts-handler-input-not-contract-json", fieldShape(k.W, rpc, rpc.In, c.Seen[0].JSONErrField)),
				Detail: fmt.Sprintf("op %d %s %s: the TS route passed %s to the handler: %s", c.Op.ID, c.Op.Raw.Verb, c.Op.Raw.Target, truncBytes(c.Seen[0].JSON), c.Seen[0].JSONErr)}
		}
		if !proto.Equal(got, want) {
			f := firstDiff(want, got)
			return &Violation{Class: "url-field-lost", Signature: "C02|url-field-lost|" + c.Op.Server + "|" + placeOf(fieldShape(k.W, rpc, rpc.In, f)),
				Detail: fmt.Sprintf("op %d %s %s body=%q: contract predicts the handler sees %s (URL-bound fields from the URL + body fields), it saw %s (field %q differs)", c.Op.ID, c.Op.Raw.Verb, c.Op.Raw.Target, truncBytes(c.Op.Raw.Body), jsonOf(want), jsonOf(got), f)}
		}
		cov.Tuple(k.W.Name, c.Op.RPC, c.Op.Server, "fam="+fam, "body="+body, "delivered")
	}
	return nil
}

func headerOf(r *RawReq, name string) string {
	for _, h := range r.Headers {
		if strings.EqualFold(h[0], name) {
			return h[1]
		}
	}
	return ""
}

func seenAll(c *CallState) string {
	var s []string
	for _, x := range c.Seen {
		s = append(s, jsonOf(x.Req))
	}
	return strings.Join(s, " ; ")
}

func placeOf(shape string) string {
	if i := strings.Index(shape, ":"); i >= 0 {
		return shape[:i]
	}
	return shape
}
