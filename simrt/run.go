package simrt

import (
	"bufio"
	"bytes"
	"context"
	"fmt"
	"io"
	"net/http"
	"runtime/debug"
	"strings"
	"testing"
	"testing/synctest"
	"time"

	"google.golang.org/protobuf/proto"
)

const baseHost = "sim.test"

func (k *Kernel) setup() {
	p := k.Plan
	k.App = &App{k: k}
	k.mux = http.NewServeMux()
	hook := k.hook()
	needGoServer := false
	for _, op := range p.Ops {
		if op.Server == "" || op.Server == "go" {
			needGoServer = true
		}
	}
	if needGoServer {
		for _, s := range k.W.Services {
			h := hook
			if !p.Hook.AppliesTo(s.Name) {
				h = nil
			}
			if err := s.Register(k.App, k.mux, h); err != nil {
				panic(fmt.Sprintf("sim: Register%sServer: %v", s.Name, err))
			}
			if s.Mock != nil {
				if k.App.Mocks == nil {
					k.App.Mocks = map[string]AppHandler{}
				}
				k.App.Mocks[s.Name] = s.Mock()
			}
		}
	}
	// clients
	nClients := len(p.Clients)
	if nClients == 0 {
		nClients = 1
	}
	base := "http://" + baseHost + p.MountPrefix
	if p.BaseSlash {
		base += "/"
	}
	var shared *http.Client
	mkHTTP := func() *http.Client {
		return &http.Client{Transport: &simTransport{k: k}, Timeout: time.Duration(p.TimeoutMs) * time.Millisecond}
	}
	if p.SharedHTTP {
		shared = mkHTTP()
	}
	for i := 0; i < nClients; i++ {
		var opts []Opt
		if i < len(p.Clients) {
			opts = p.Clients[i]
		}
		m := map[string]any{}
		for _, s := range k.W.Services {
			hc := shared
			if hc == nil {
				hc = mkHTTP()
			}
			m[s.Name] = s.NewClient(base, hc, opts)
		}
		k.clients = append(k.clients, m)
	}
	for i, op := range p.Ops {
		c := &CallState{Op: op, Idx: i}
		k.Calls = append(k.Calls, c)
	}
}

func (k *Kernel) startCall(c *CallState) {
	c.Started = true
	c.StartSeq = k.seq
	c.StartAt = k.Now()
	ctx := context.WithValue(context.Background(), callKey, c)
	if c.Op.DeadlineMs > 0 {
		ctx, c.cancel = context.WithTimeout(ctx, time.Duration(c.Op.DeadlineMs)*time.Millisecond)
	} else {
		ctx, c.cancel = context.WithCancel(ctx)
	}
	c.ctx = ctx
	switch c.Op.Client {
	case "raw":
		go k.rawClient(c)
	case "ts":
		k.tsStartCall(c)
	default:
		go k.goClient(c)
	}
}

func (k *Kernel) goClient(c *CallState) {
	defer func() {
		if r := recover(); r != nil {
			c.PanicVal = fmt.Sprintf("%v\n%s", r, trimStack(debug.Stack()))
			c.Err = fmt.Errorf("client panic: %v", r)
		}
		k.post(kmsg{kind: "ret", call: c, ord: c.Idx})
	}()
	svc, md := k.W.Method(c.Op.RPC)
	if md == nil {
		c.Err = fmt.Errorf("sim: unknown rpc %s", c.Op.RPC)
		return
	}
	req := md.NewReq()
	if err := proto.Unmarshal(c.Op.ReqBin, req); err != nil {
		c.Err = fmt.Errorf("sim: plan request does not decode: %w", err)
		return
	}
	c.Req = proto.Clone(req)
	if k.Plan.SharedMsgs {
		req = k.sharedMsg("req|"+c.Op.RPC, c.Op.ReqBin, req)
	}
	ci := c.Op.ClientIdx
	if ci < 0 || ci >= len(k.clients) {
		ci = 0
	}
	client := k.clients[ci][svc.Name]
	c.Resp, c.Err = md.Call(c.ctx, client, req, c.Op.Opts)
	if c.Resp != nil && isNilMsg(c.Resp) {
		c.Resp = nil
	}
}

func isNilMsg(m proto.Message) bool {
	defer func() { _ = recover() }()
	return !m.ProtoReflect().IsValid()
}

// rawClient is the "contract client": it emits exactly the bytes the plan names.
func (k *Kernel) rawClient(c *CallState) {
	defer func() {
		if r := recover(); r != nil {
			c.PanicVal = fmt.Sprintf("%v", r)
			c.RespErr = fmt.Errorf("raw client panic: %v", r)
		}
		k.post(kmsg{kind: "ret", call: c, ord: c.Idx})
	}()
	r := c.Op.Raw
	raw := BuildRawRequest(r)
	cn := k.newConn(c, raw, headLenOf(raw))
	cn.s2c.pipe.ctx = c.ctx
	cn.s2c.pipe.done = c.ctx.Done()
	k.post(kmsg{kind: "dial", conn: cn, ord: c.Idx})
	req, _ := http.NewRequest(r.Verb, "http://"+baseHost+"/", nil)
	resp, err := http.ReadResponse(bufio.NewReader(cn.s2c.pipe), req)
	if err != nil {
		c.RespErr = err
		return
	}
	c.Status = resp.StatusCode
	c.RespHeader = resp.Header
	body, err := io.ReadAll(resp.Body)
	c.RespBody = body
	if err != nil {
		c.RespErr = err
	}
}

// BuildRawRequest serialises a RawReq exactly.
func BuildRawRequest(r *RawReq) []byte {
	var b bytes.Buffer
	fmt.Fprintf(&b, "%s %s HTTP/1.1\r\nHost: %s\r\n", r.Verb, r.Target, baseHost)
	hasCL := false
	for _, h := range r.Headers {
		if strings.EqualFold(h[0], "Content-Length") {
			hasCL = true
		}
		fmt.Fprintf(&b, "%s: %s\r\n", h[0], h[1])
	}
	switch {
	case r.NoBody:
		b.WriteString("\r\n")
	case r.Chunked:
		b.WriteString("Transfer-Encoding: chunked\r\n\r\n")
		body := r.Body
		for len(body) > 0 {
			n := 7
			if n > len(body) {
				n = len(body)
			}
			fmt.Fprintf(&b, "%x\r\n", n)
			b.Write(body[:n])
			b.WriteString("\r\n")
			body = body[n:]
		}
		b.WriteString("0\r\n\r\n")
	default:
		if !hasCL {
			fmt.Fprintf(&b, "Content-Length: %d\r\n", len(r.Body))
		}
		b.WriteString("\r\n")
		b.Write(r.Body)
	}
	return b.Bytes()
}

// RunPlan executes one plan in a fresh bubble and returns the kernel for inspection.
func RunPlan(t *testing.T, w *WorldDesc, p *Plan, keepLog bool) (k *Kernel) {
	k = NewKernel(w, p, keepLog)
	func() {
		defer func() {
			if r := recover(); r != nil {
				k.Panics = append(k.Panics, fmt.Sprintf("bubble: %v", r))
			}
		}()
		synctest.Test(t, func(t *testing.T) {
			defer func() {
				if r := recover(); r != nil {
					k.Panics = append(k.Panics, fmt.Sprintf("kernel: %v\n%s", r, trimStack(debug.Stack())))
					if !k.closing {
						k.teardown()
					}
				}
			}()
			k.Run()
		})
	}()
	return k
}

// sharedMsg returns the one instance shared by all calls with the same key and payload.
func (k *Kernel) sharedMsg(key string, bin []byte, fresh proto.Message) proto.Message {
	k.sharedMu.Lock()
	defer k.sharedMu.Unlock()
	if k.shared == nil {
		k.shared = map[string]proto.Message{}
	}
	id := key + "|" + string(bin)
	if m, ok := k.shared[id]; ok {
		return m
	}
	k.shared[id] = fresh
	return fresh
}
