module verif/simrt

go 1.26

require (
	buf.build/gen/go/bufbuild/protovalidate/protocolbuffers/go v1.36.11-20260209202127-80ab13bee0bf.1
	buf.build/go/protovalidate v0.0.0
	github.com/SebastienMelki/sebuf v0.0.0
	github.com/anishathalye/porcupine v1.3.0
	google.golang.org/protobuf v1.36.11
	pgregory.net/rapid v1.3.0
	sigs.k8s.io/yaml v1.6.0
)

require go.yaml.in/yaml/v2 v2.4.2 // indirect

replace github.com/SebastienMelki/sebuf => /repo

replace buf.build/go/protovalidate => ../stubs/protovalidate
