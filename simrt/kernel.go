package simrt

import (
	"sync"
	"context"
	"crypto/sha256"
	"encoding/hex"
	"errors"
	"fmt"
	"hash"
	"net/http"
	"sort"
	"testing/synctest"
	"time"

	"google.golang.org/protobuf/proto"
)

type ctxKey int

const callKey ctxKey = 1

// Seen is one application-handler invocation.
type Seen struct {
	RPC    string
	Req    proto.Message
	Seq    uint64
	ConnID int
	// TS server: the object the TS route passed to the handler, verbatim
	JSON    []byte
	JSONErr string
	JSONErrField string
	Headers map[string]string
}

// WireReq is a request head as it appeared on the simulated wire.
type WireReq struct {
	Verb   string
	Target string
	Header http.Header
	Body   []byte
	ConnID int
}

// CallState is the kernel's record of one op.
type CallState struct {
	Op  *Op
	Idx int

	Started  bool
	Returned bool
	Hung     bool
	StartSeq uint64
	RetSeq   uint64
	StartAt  time.Duration
	RetAt    time.Duration

	Req  proto.Message // what the caller passed (clone taken before the call)
	Resp proto.Message
	Err  error
	// Raw-client results
	Status     int
	RespHeader http.Header
	RespBody   []byte
	RespErr    error

	Seen  []Seen
	Wire  []WireReq
	Conns []*Conn

	// HandlerResp is what the app handler returned for this call (last invocation).
	HandlerResp proto.Message
	HandlerErr  error

	// TS client results
	TSValue     []byte
	TSDecodeErr error
	TSError     map[string]any

	ctx         context.Context
	cancel      context.CancelFunc
	cancelFired bool
	PanicVal    any
}

type waiter struct {
	id      uint64
	site    string
	call    *CallState
	ch      chan struct{}
	task    int
	blocked bool // parked on a simulated sync object until its releaser re-posts it
}

type kmsg struct {
	kind string // dial | park | ret | srvdone | note
	conn *Conn
	w    *waiter
	call *CallState
	ts   *tsPending
	ord  int
}

// Stats are per-run counters merged into the evidence.
type Stats struct {
	Faults map[string]int
	Probes map[string]int
}

func (s *Stats) fault(k string) {
	if s.Faults == nil {
		s.Faults = map[string]int{}
	}
	s.Faults[k]++
}

func (s *Stats) Probe(k string) {
	if s.Probes == nil {
		s.Probes = map[string]int{}
	}
	s.Probes[k]++
}

// Kernel runs one plan.
type Kernel struct {
	W    *WorldDesc
	Plan *Plan

	t0       time.Time
	seq      uint64
	schedIdx int
	logHash  hash.Hash
	Log      []string
	keepLog  bool
	ilHash   hash.Hash // interleaving hash: sequence of (event kind, task) only

	Calls   []*CallState
	conns   []*Conn
	parked  []*waiter
	inbox   chan kmsg
	nextWID uint64
	closing bool

	mux     *http.ServeMux
	clients []map[string]any // per client index: service -> client
	App     *App
	Stats   Stats
	Steps   int
	Yielded int
	EndAt   time.Duration
	StepCap bool
	Panics  []string

	// race detector / access probes (C17)
	Race    *RaceDetector
	cur     int // task the kernel released last (client task = call index, server task = 1000+conn id)
	curCall *CallState
	mockIdx int
	optCache map[string]any

	// Server-side observations
	ServerPanics int
	Orphans      []Seen // handler invocations with no call id
	TS           *TSBridge
	TSCrashes    []string // uncaught exceptions / unhandled rejections reported by the Node process during this run
	tsQueue      []*tsPending
	shared       map[string]proto.Message // Plan.SharedMsgs: one instance per (rpc, payload)
	sharedMu     sync.Mutex
	held         []kmsg
}

const maxSteps = 20000

func NewKernel(w *WorldDesc, p *Plan, keepLog bool) *Kernel {
	k := &Kernel{W: w, Plan: p, keepLog: keepLog}
	k.logHash = sha256.New()
	k.ilHash = sha256.New()
	return k
}

func (k *Kernel) Now() time.Duration { return time.Since(k.t0) }

// Event appends one line to the event log. It never draws and never reads a real clock.
func (k *Kernel) Event(kind string, format string, args ...any) {
	k.seq++
	line := fmt.Sprintf("%d t=%d %s %s", k.seq, k.Now().Microseconds(), kind, fmt.Sprintf(format, args...))
	k.logHash.Write([]byte(line))
	k.logHash.Write([]byte{'\n'})
	if k.keepLog && len(k.Log) < 5000 {
		k.Log = append(k.Log, line)
	}
}

func (k *Kernel) LogHash() string { return hex.EncodeToString(k.logHash.Sum(nil))[:16] }
func (k *Kernel) ILHash() string  { return hex.EncodeToString(k.ilHash.Sum(nil))[:16] }

func (k *Kernel) choose(n int) int {
	if n <= 1 {
		return 0
	}
	i := 0
	if k.schedIdx < len(k.Plan.Schedule) {
		v := k.Plan.Schedule[k.schedIdx]
		if v < 0 {
			v = -v
		}
		i = v % n
	}
	k.schedIdx++
	return i
}

type event struct {
	kind string // start | accept | deliver | resume | cancel
	call *CallState
	conn *Conn
	link *link
	w    *waiter
	ts   *tsPending
}

func (e event) String() string {
	switch e.kind {
	case "start", "cancel":
		return fmt.Sprintf("%s op=%d", e.kind, e.call.Op.ID)
	case "accept":
		return fmt.Sprintf("accept conn=%d", e.conn.id)
	case "deliver":
		return fmt.Sprintf("deliver conn=%d dir=%s", e.link.conn.id, e.link.dir)
	case "resume":
		return fmt.Sprintf("resume w=%d site=%s", e.w.id, e.w.site)
	}
	return e.kind
}

func (k *Kernel) enabled(now time.Duration) (en []event, next time.Duration) {
	next = -1
	consider := func(t time.Duration) {
		if t > now && (next < 0 || t < next) {
			next = t
		}
	}
	// starts
	for i, c := range k.Calls {
		if c.Started {
			continue
		}
		if k.Plan.Sequential {
			if i > 0 && !k.Calls[i-1].Returned && !k.Calls[i-1].Hung {
				break
			}
		}
		at := time.Duration(c.Op.StartMs) * time.Millisecond
		if at <= now {
			en = append(en, event{kind: "start", call: c})
		} else {
			consider(at)
		}
		if k.Plan.Sequential {
			break
		}
	}
	// cancels
	for _, c := range k.Calls {
		if !c.Started || c.Returned || c.cancelFired {
			continue
		}
		for _, f := range c.Op.Faults {
			if f.Kind == "cancel" {
				at := c.StartAt + time.Duration(f.AtMs)*time.Millisecond
				if at <= now {
					en = append(en, event{kind: "cancel", call: c})
				} else {
					consider(at)
				}
				break
			}
		}
	}
	for _, cn := range k.conns {
		if !cn.accepted && !cn.dropped {
			en = append(en, event{kind: "accept", conn: cn})
		}
		for _, l := range []*link{cn.c2s, cn.s2c} {
			if l.deliverable() {
				if l.nextAt <= now {
					en = append(en, event{kind: "deliver", conn: cn, link: l})
				} else {
					consider(l.nextAt)
				}
			}
		}
	}
	for _, w := range k.parked {
		en = append(en, event{kind: "resume", w: w})
	}
	streaming := map[*Conn]bool{}
	for _, p := range k.tsQueue {
		// the pieces of one request (head, body chunks, end) reach the TS server in order
		if p.conn != nil && (p.kind == "serve" || p.kind == "body-chunk" || p.kind == "body-end" || p.kind == "body-error") {
			if streaming[p.conn] {
				continue
			}
			streaming[p.conn] = true
		}
		en = append(en, event{kind: "ts", ts: p})
	}
	return en, next
}

func (k *Kernel) drain() {
	msgs := k.held
	k.held = nil
	for {
		select {
		case m := <-k.inbox:
			msgs = append(msgs, m)
			continue
		default:
		}
		break
	}
	if len(msgs) > 1 {
		// goroutines woken by timers at the same virtual instant post in scheduler
		// order: process them in a fixed order instead
		sort.SliceStable(msgs, func(a, b int) bool {
			if msgs[a].ord != msgs[b].ord {
				return msgs[a].ord < msgs[b].ord
			}
			return msgs[a].kind < msgs[b].kind
		})
	}
	for _, m := range msgs {
		k.handle(m)
	}
}

func (k *Kernel) handle(m kmsg) {
	switch m.kind {
	case "dial":
		m.conn.id = len(k.conns)
		k.conns = append(k.conns, m.conn)
		m.conn.call.Conns = append(m.conn.call.Conns, m.conn)
		k.Event("dial", "conn=%d op=%d bytes=%d h=%s", m.conn.id, m.conn.call.Op.ID, len(m.conn.c2s.pending), bagHash(m.conn.c2s.pending))
		if k.Race != nil {
			m.conn.sendClock = k.Race.snapshot(m.conn.call.Idx)
		}
		k.applyDialFaults(m.conn)
	case "park":
		k.nextWID++
		m.w.id = k.nextWID
		k.parked = append(k.parked, m.w)
	case "ret":
		c := m.call
		c.Returned = true
		c.RetSeq = k.seq + 1
		c.RetAt = k.Now()
		k.Event("client-return", "op=%d %s", c.Op.ID, outcomeClass(c))
	case "ts":
		k.tsQueue = append(k.tsQueue, m.ts)
	case "srvdone":
		if k.Race != nil {
			m.conn.respClock = k.Race.snapshot(1000 + m.conn.id)
		}
		k.Event("server-done", "conn=%d status=%d bytes=%d h=%s", m.conn.id, m.conn.status, len(m.conn.s2c.sent), bagHash(m.conn.s2c.sent))
	}
}

func outcomeClass(c *CallState) string {
	if c.Op.Client == "raw" || c.Op.Client == "ts-raw" {
		if c.RespErr != nil {
			return "raw-err"
		}
		return fmt.Sprintf("raw-status=%d", c.Status)
	}
	if c.Err != nil {
		return "err"
	}
	return "ok"
}

func (k *Kernel) post(m kmsg) {
	select {
	case k.inbox <- m:
	default:
		panic("simrt: kernel inbox overflow")
	}
}

// Yield parks the calling goroutine until the schedule resumes it.
func (k *Kernel) Yield(call *CallState, site string) {
	if k == nil || k.closing {
		return
	}
	w := &waiter{site: site, call: call, ch: make(chan struct{}), task: k.cur}
	ord := 0
	if call != nil {
		ord = call.Idx
	}
	k.post(kmsg{kind: "park", w: w, ord: ord})
	<-w.ch
}

// Run executes the plan inside the current synctest bubble.
func (k *Kernel) Run() {
	k.t0 = time.Now()
	k.inbox = make(chan kmsg, 4096)
	k.cur = setupTask
	if k.Plan.Race {
		k.Race = newRaceDetector()
	}
	Current = k
	k.setup()
	const idleCap = 2 * time.Hour
	for {
		synctest.Wait()
		k.drain()
		if k.allDone() {
			break
		}
		k.Steps++
		if k.Steps > maxSteps {
			k.StepCap = true
			break
		}
		now := k.Now()
		en, next := k.enabled(now)
		if len(en) == 0 {
			d := idleCap
			if next >= 0 {
				d = next - now
			}
			tm := time.NewTimer(d)
			select {
			case m := <-k.inbox:
				tm.Stop()
				// others woken at the same instant may still be running: collect them all
				// (after quiescence) before handling any, in a fixed order
				k.held = append(k.held, m)
			case <-tm.C:
				if next < 0 {
					// nothing can ever happen again: outstanding calls are hung
					for _, c := range k.Calls {
						if c.Started && !c.Returned {
							c.Hung = true
							k.Event("hung", "op=%d", c.Op.ID)
						}
					}
					goto done
				}
			}
			continue
		}
		ev := en[k.choose(len(en))]
		k.exec(ev)
	}
done:
	k.EndAt = k.Now()
	k.teardown()
}

func (k *Kernel) allDone() bool {
	for _, c := range k.Calls {
		if !c.Started || !(c.Returned || c.Hung) {
			return false
		}
	}
	// let server tasks of duplicated / still running connections finish
	for _, cn := range k.conns {
		if cn.accepted && !cn.serverDone && cn.serverCanFinish() {
			return false
		}
	}
	return len(k.parked) == 0 && len(k.tsQueue) == 0
}

func (k *Kernel) exec(ev event) {
	fmt.Fprintf(k.ilHash, "%s|", ev.kind)
	switch ev.kind {
	case "start":
		k.Event("start", "op=%d rpc=%s client=%s server=%s", ev.call.Op.ID, ev.call.Op.RPC, ev.call.Op.Client, ev.call.Op.Server)
		fmt.Fprintf(k.ilHash, "%d|", ev.call.Idx)
		k.cur, k.curCall = ev.call.Idx, ev.call
		k.startCall(ev.call)
	case "cancel":
		ev.call.cancelFired = true
		k.Stats.fault("cancel")
		k.Event("fault", "cancel op=%d", ev.call.Op.ID)
		ev.call.cancel()
		if ev.call.Op.Client == "ts" && k.TS != nil {
			evs, err := k.TS.Send(map[string]any{"t": "abort", "id": ev.call.Idx})
			if err != nil {
				panic("sim: bridge: " + err.Error())
			}
			k.Stats.Probe("abort_fired")
			k.tsEvents(evs)
		}
	case "ts":
		for i, p := range k.tsQueue {
			if p == ev.ts {
				k.tsQueue = append(k.tsQueue[:i], k.tsQueue[i+1:]...)
				break
			}
		}
		fmt.Fprintf(k.ilHash, "%s%d|", ev.ts.kind, ev.ts.call.Idx)
		k.Event("ts", "%s op=%d", ev.ts.kind, ev.ts.call.Op.ID)
		if ev.ts.kind == "handle-result" {
			k.Yielded++
			k.tsDeliverHandleResult(ev.ts)
		} else {
			k.tsHandlePending(ev.ts)
		}
	case "accept":
		ev.conn.accepted = true
		k.Event("accept", "conn=%d", ev.conn.id)
		fmt.Fprintf(k.ilHash, "%d|", ev.conn.call.Idx)
		k.cur, k.curCall = 1000+ev.conn.id, ev.conn.call
		if k.Race != nil {
			k.Race.acquire(k.cur, ev.conn.sendClock)
		}
		k.accept(ev.conn)
	case "deliver":
		fmt.Fprintf(k.ilHash, "%d%s|", ev.link.conn.call.Idx, ev.link.dir)
		if ev.link.dir == "req" {
			k.cur, k.curCall = 1000+ev.link.conn.id, ev.link.conn.call
			if k.Race != nil {
				k.Race.acquire(k.cur, ev.link.conn.sendClock)
			}
		} else {
			k.cur, k.curCall = ev.link.conn.call.Idx, ev.link.conn.call
			if k.Race != nil {
				k.Race.acquire(k.cur, ev.link.conn.respClock)
			}
		}
		ev.link.deliver(k)
	case "resume":
		for i, w := range k.parked {
			if w == ev.w {
				k.parked = append(k.parked[:i], k.parked[i+1:]...)
				break
			}
		}
		ci := -1
		if ev.w.call != nil {
			ci = ev.w.call.Idx
		}
		fmt.Fprintf(k.ilHash, "%d@%s|", ci, ev.w.site)
		k.Event("resume", "site=%s op=%d", ev.w.site, ci)
		k.cur, k.curCall = ev.w.task, ev.w.call
		close(ev.w.ch)
	}
}

func (k *Kernel) teardown() {
	k.closing = true
	k.cur = setupTask
	for _, c := range k.Calls {
		if c.cancel != nil {
			c.cancel()
		}
	}
	for _, cn := range k.conns {
		cn.c2s.pipe.closeWith(errConnClosed)
		cn.s2c.pipe.closeWith(errConnClosed)
		if cn.srvCancel != nil {
			cn.srvCancel()
		}
	}
	for {
		synctest.Wait()
		k.drainQuiet()
		if len(k.parked) == 0 {
			break
		}
		for _, w := range k.parked {
			close(w.ch)
		}
		k.parked = nil
	}
	if k.TS != nil {
		k.TS.EndRun()
	}
}

func (k *Kernel) drainQuiet() {
	for {
		select {
		case m := <-k.inbox:
			if m.kind == "park" {
				k.parked = append(k.parked, m.w)
			}
			continue
		default:
		}
		return
	}
}

var errConnClosed = errors.New("sim: connection closed")

// bagHash hashes the multiset of bytes of b: sensitive to content, insensitive to the
// order in which unordered collections were serialised (proto.Marshal emits map entries
// in Go's random map order; the generated validateHeaders lists violations in map
// order). It is what the event log (the determinism witness) records for payloads.
func bagHash(b []byte) string {
	var counts [256]uint32
	for _, c := range b {
		counts[c]++
	}
	h := sha256.New()
	for i, n := range counts {
		if n > 0 {
			fmt.Fprintf(h, "%d:%d,", i, n)
		}
	}
	return hex.EncodeToString(h.Sum(nil)[:4])
}

func shortHash(b []byte) string {
	h := sha256.Sum256(b)
	return hex.EncodeToString(h[:4])
}
