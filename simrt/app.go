package simrt

import (
	"io"
	"context"
	"errors"
	"fmt"
	"net/http"
	"strings"
	"time"

	sebufhttp "github.com/SebastienMelki/sebuf/http"
	"google.golang.org/protobuf/proto"
	"google.golang.org/protobuf/reflect/protoreflect"
)

// App is the application node behind the generated servers: a recorder with scripted
// behaviours, owned by the simulator.
type App struct {
	k  *Kernel
	KV map[string]string
	// Mocks: service name -> generated mock implementation (when Plan mode uses it)
	Mocks map[string]AppHandler
}

type wrappedErr struct {
	msg   string
	inner error
}

func (w *wrappedErr) Error() string { return w.msg + ": " + w.inner.Error() }
func (w *wrappedErr) Unwrap() error { return w.inner }

func (a *App) Handle(ctx context.Context, rpc string, req proto.Message) (proto.Message, error) {
	k := a.k
	call, _ := ctx.Value(callKey).(*CallState)
	cn, _ := ctx.Value(connKey).(*Conn)
	cid := -1
	if cn != nil {
		cid = cn.id
		cn.Dispatched++
	}
	var clone proto.Message
	if req != nil {
		clone = proto.Clone(req)
	}
	if call == nil {
		k.Orphans = append(k.Orphans, Seen{RPC: rpc, Req: clone, Seq: k.seq, ConnID: cid})
		k.Event("handler-orphan", "rpc=%s", rpc)
		return nil, errors.New("sim: handler invoked without call id")
	}
	k.Event("handler-enter", "op=%d rpc=%s conn=%d h=%s", call.Op.ID, rpc, cid, msgHash(clone))
	call.Seen = append(call.Seen, Seen{RPC: rpc, Req: clone, Seq: k.seq, ConnID: cid})
	k.Yield(call, "handler")
	b := call.Op.App
	if b.DelayMs > 0 {
		time.Sleep(time.Duration(b.DelayMs) * time.Millisecond)
		// handlers that wake at the same virtual instant continue in the order the schedule
		// picks, not in the order the runtime happened to wake them
		k.Yield(call, "handler-wake")
	}
	resp, err := a.behave(ctx, call, rpc, req)
	if cn == nil || !cn.dup {
		call.HandlerResp, call.HandlerErr = resp, err
	}
	k.Event("handler-exit", "op=%d err=%v", call.Op.ID, err != nil)
	return resp, err
}

func (a *App) behave(ctx context.Context, call *CallState, rpc string, req proto.Message) (proto.Message, error) {
	b := call.Op.App
	_, md := a.k.W.Method(rpc)
	switch b.Kind {
	case "", "respond":
		resp := md.NewResp()
		if len(call.Op.RespBin) > 0 {
			if err := proto.Unmarshal(call.Op.RespBin, resp); err != nil {
				return nil, fmt.Errorf("sim: plan response does not decode: %w", err)
			}
		}
		if a.k.Plan.SharedMsgs {
			resp = a.k.sharedMsg("resp|"+rpc, call.Op.RespBin, resp)
		}
		return resp, nil
	case "mock":
		svc := strings.SplitN(rpc, "/", 2)[0]
		m := a.Mocks[svc]
		if a.k.Plan.FreshMock {
			// every request builds a mock of its own (parallel test cases that each construct
			// their mock): construction runs in this handler task, next to requests in flight
			for _, s := range a.k.W.Services {
				if s.Name == svc && s.Mock != nil {
					m = s.Mock()
				}
			}
		}
		if m == nil {
			return nil, errors.New("sim: no mock for service " + svc)
		}
		return m.Handle(ctx, rpc, req)
	case "err-plain":
		return nil, errors.New(b.Text)
	case "err-sebuf":
		e := &sebufhttp.Error{Message: b.Text}
		if a.k.Plan.SharedMsgs {
			// a sentinel error value returned by every failing call with this text
			e = a.k.sharedMsg("err|"+rpc, []byte(b.Text), e).(*sebufhttp.Error)
		}
		return nil, e
	case "err-validation":
		ve := &sebufhttp.ValidationError{}
		for _, f := range b.Fields {
			ve.Violations = append(ve.Violations, &sebufhttp.FieldViolation{Field: f, Description: b.Text})
		}
		return nil, ve
	case "err-custom", "err-wrapped-custom":
		mk := a.k.W.ErrorTypes[b.Custom]
		if mk == nil {
			return nil, errors.New("sim: unknown custom error type " + b.Custom)
		}
		m := mk()
		if err := proto.Unmarshal(b.Bin, m); err != nil {
			return nil, fmt.Errorf("sim: custom error payload: %w", err)
		}
		e, ok := m.(error)
		if !ok {
			return nil, fmt.Errorf("sim: custom error type %s does not implement error", b.Custom)
		}
		if b.Kind == "err-wrapped-custom" {
			return nil, &wrappedErr{msg: b.Text, inner: e}
		}
		return nil, e
	case "kv-put", "kv-get":
		return a.kv(call, b, md)
	}
	return nil, errors.New("sim: unknown app behaviour " + b.Kind)
}

// kv implements a register-per-key store used by the linearizability oracle: the
// request's first string field is the key, the op's Text the value to write; the
// response's first string field carries the value read / previous value.
func (a *App) kv(call *CallState, b AppBehaviour, md *MethodDesc) (proto.Message, error) {
	if a.KV == nil {
		a.KV = map[string]string{}
	}
	resp := md.NewResp()
	key := b.Custom
	var val string
	if b.Kind == "kv-put" {
		a.KV[key] = b.Text
		val = b.Text
	} else {
		val = a.KV[key]
	}
	setFirstString(resp, val)
	return resp, nil
}

func setFirstString(m proto.Message, v string) bool {
	r := m.ProtoReflect()
	fds := r.Descriptor().Fields()
	for i := 0; i < fds.Len(); i++ {
		fd := fds.Get(i)
		if fd.Kind().String() == "string" && !fd.IsList() && !fd.IsMap() && fd.ContainingOneof() == nil {
			r.Set(fd, protoreflect.ValueOfString(v))
			return true
		}
	}
	return false
}

func getFirstString(m proto.Message) (string, bool) {
	if m == nil {
		return "", false
	}
	r := m.ProtoReflect()
	fds := r.Descriptor().Fields()
	for i := 0; i < fds.Len(); i++ {
		fd := fds.Get(i)
		if fd.Kind().String() == "string" && !fd.IsList() && !fd.IsMap() && fd.ContainingOneof() == nil {
			return r.Get(fd).String(), true
		}
	}
	return "", false
}

func msgHash(m proto.Message) string {
	if m == nil {
		return "nil"
	}
	b, err := proto.MarshalOptions{Deterministic: true}.Marshal(m)
	if err != nil {
		return "unmarshalable"
	}
	return bagHash(b)
}

// hook builds the scripted error hook.
func (k *Kernel) hook() ErrorHook {
	hp := k.Plan.Hook
	if hp == nil || !hp.Present {
		return nil
	}
	return func(w http.ResponseWriter, r *http.Request, err error) proto.Message {
		call, _ := r.Context().Value(callKey).(*CallState)
		id := -1
		if call != nil {
			id = call.Op.ID
		}
		k.Event("hook-enter", "op=%d", id)
		k.Stats.Probe("hook_called")
		for _, h := range hp.Headers {
			w.Header().Set(h[0], h[1])
		}
		if hp.Status > 0 && hookStatusApplies(hp, call) {
			w.WriteHeader(hp.Status)
			k.Stats.Probe("hook_called_writeheader")
		}
		if hp.WriteBody != "" {
			switch hp.WriteVia {
			case "string":
				_, _ = io.WriteString(w, hp.WriteBody)
			case "copy":
				_, _ = io.Copy(w, strings.NewReader(hp.WriteBody))
			default:
				_, _ = w.Write([]byte(hp.WriteBody))
			}
			k.Stats.Probe("hook_wrote_body")
		}
		var out proto.Message
		switch hp.ReturnMsg {
		case "error":
			out = &sebufhttp.Error{Message: hp.MsgText}
		case "validation":
			out = &sebufhttp.ValidationError{Violations: []*sebufhttp.FieldViolation{{Field: "hook", Description: hp.MsgText}}}
		}
		if out != nil {
			k.Stats.Probe("hook_returned_message")
		}
		k.Event("hook-exit", "op=%d", id)
		return out
	}
}

// hookStatusApplies: a hook may set the status for some error sources only.
func hookStatusApplies(hp *HookPlan, call *CallState) bool {
	if len(hp.StatusOnlyFor) == 0 {
		return true
	}
	if call == nil {
		return false
	}
	src := noteOf(call.Op, "source")
	for _, s := range hp.StatusOnlyFor {
		if s == src {
			return true
		}
	}
	return false
}
