// Package simrt is the deterministic simulation runtime: kernel (seeded scheduler on
// a synctest bubble), simulated HTTP link, fault injection, app-handler node,
// plan types, oracles and evidence counters. It is linked into every world's
// runner binary together with the code the real sebuf plugins generated.
package simrt

import (
	"context"
	"encoding/json"
	"net/http"
	"sort"
	"sync"

	"google.golang.org/protobuf/proto"

	"verif/simrt/spec"
)

// Opt is a client or call option in neutral form; the glue maps it onto the
// generated option constructors.
type Opt struct {
	Kind  string `json:"kind"`            // contentType | header | helper
	Key   string `json:"key,omitempty"`   // header name
	Value string `json:"value,omitempty"` // header value / content type
}

// AppHandler is the application node behind a generated server.
type AppHandler interface {
	Handle(ctx context.Context, rpc string, req proto.Message) (proto.Message, error)
}

// ErrorHook is the neutral form of the generated package's ErrorHandler type.
type ErrorHook func(w http.ResponseWriter, r *http.Request, err error) proto.Message

type MethodDesc struct {
	Service string
	Name    string
	Key     string
	NewReq  func() proto.Message
	NewResp func() proto.Message
	Call    func(ctx context.Context, client any, req proto.Message, opts []Opt) (proto.Message, error)
}

type ServiceDesc struct {
	Name      string
	Methods   []*MethodDesc
	NewClient func(baseURL string, hc *http.Client, opts []Opt) any
	Register  func(h AppHandler, mux *http.ServeMux, hook ErrorHook) error
	// Mock, when the world was generated with generate_mock, invokes the generated
	// mock implementation.
	Mock func() AppHandler
}

type WorldDesc struct {
	Name     string
	SpecJSON string
	Services []*ServiceDesc
	// ErrorTypes: constructors of messages named *Error in the world (custom errors).
	ErrorTypes map[string]func() proto.Message

	specOnce sync.Once
	spec     *spec.World
	rpcs     map[string]*spec.RPC
}

var worlds = map[string]*WorldDesc{}

// RegisterWorld is called from each world package's init.
func RegisterWorld(w *WorldDesc) { worlds[w.Name] = w }

// RegisterWorldPart adds the services of one Go package to a world (a world may span
// several Go packages; exactly one part carries the spec JSON).
func RegisterWorldPart(name, specJSON string, svcs []*ServiceDesc, errTypes map[string]func() proto.Message) {
	w := worlds[name]
	if w == nil {
		w = &WorldDesc{Name: name, ErrorTypes: map[string]func() proto.Message{}}
		worlds[name] = w
	}
	if specJSON != "" {
		w.SpecJSON = specJSON
	}
	w.Services = append(w.Services, svcs...)
	sort.SliceStable(w.Services, func(a, b int) bool { return w.Services[a].Name < w.Services[b].Name })
	for k, v := range errTypes {
		w.ErrorTypes[k] = v
	}
}

func WorldNames() []string {
	var ns []string
	for n := range worlds {
		ns = append(ns, n)
	}
	sort.Strings(ns)
	return ns
}

func GetWorld(name string) *WorldDesc { return worlds[name] }

func (w *WorldDesc) Spec() *spec.World {
	w.specOnce.Do(func() {
		w.spec = &spec.World{}
		if err := json.Unmarshal([]byte(w.SpecJSON), w.spec); err != nil {
			panic("simrt: bad spec json for world " + w.Name + ": " + err.Error())
		}
		w.rpcs = map[string]*spec.RPC{}
		for _, r := range spec.Contract(w.spec) {
			w.rpcs[r.Key] = r
		}
	})
	return w.spec
}

func (w *WorldDesc) RPC(key string) *spec.RPC {
	w.Spec()
	return w.rpcs[key]
}

func (w *WorldDesc) Method(key string) (*ServiceDesc, *MethodDesc) {
	for _, s := range w.Services {
		for _, m := range s.Methods {
			if m.Key == key {
				return s, m
			}
		}
	}
	return nil, nil
}

func (w *WorldDesc) AllMethods() []*MethodDesc {
	var out []*MethodDesc
	for _, s := range w.Services {
		out = append(out, s.Methods...)
	}
	return out
}

// CachedOpt returns one option VALUE per distinct (service, kind, key, value) within a
// run: a caller that builds an option once and passes it to several calls (the usual way
// to carry e.g. an Authorization header) is what the generated option constructors must
// tolerate.
func CachedOpt(key string, mk func() any) any {
	k := Current
	if k == nil {
		return mk()
	}
	if k.optCache == nil {
		k.optCache = map[string]any{}
	}
	if v, ok := k.optCache[key]; ok {
		k.Stats.Probe("call_option_value_reused")
		return v
	}
	v := mk()
	k.optCache[key] = v
	return v
}
