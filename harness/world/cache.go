package world

import (
	"fmt"
	"os"
	"os/exec"
	"path/filepath"
	"runtime"
	"strings"
)

// Every world is a package nobody builds twice, so building worlds through the user's Go
// build cache only makes it grow (tens of GB after a few hundred checks). A check therefore
// builds in a cache of its own, thrown away when the check ends. So that the standard
// library and the fixed dependencies are not recompiled by every check, that cache starts
// as a hard-link copy (no space, well under a second) of a base cache which holds exactly
// those and is built once per Go version.

// CacheDir, when set, is the GOCACHE of every go command the harness runs.
var CacheDir string

func baseCacheDir() string {
	root, err := os.UserCacheDir()
	if err != nil {
		root = os.TempDir()
	}
	v := strings.ReplaceAll(runtime.Version(), " ", "_")
	return filepath.Join(root, "verif-gocache-base-"+v)
}

func goIn(dir, cache string, args ...string) error {
	cmd := exec.Command(GoBin, args...)
	cmd.Dir = dir
	cmd.Env = append(Env(), "GOCACHE="+cache)
	if out, err := cmd.CombinedOutput(); err != nil {
		return fmt.Errorf("go %s in %s: %v\n%s", strings.Join(args, " "), dir, err, out)
	}
	return nil
}

// ensureBaseCache builds the base cache if it does not exist yet: the standard library (also
// for vet and the test binary), the runtime library of the simulator with its dependencies,
// and the repository's packages the plugins are built from.
func ensureBaseCache() (string, error) {
	base := baseCacheDir()
	if _, err := os.Stat(filepath.Join(base, ".complete")); err == nil {
		return base, nil
	}
	tmp := fmt.Sprintf("%s.tmp%d", base, os.Getpid())
	_ = os.RemoveAll(tmp)
	if err := os.MkdirAll(tmp, 0o755); err != nil {
		return "", err
	}
	simrt := filepath.Join(VerifDir, "simrt")
	steps := []struct {
		dir  string
		args []string
	}{
		{simrt, []string{"build", "std"}},
		{simrt, []string{"build", "./..."}},
		{simrt, []string{"vet", "./..."}},
		{simrt, []string{"test", "-count=1", "-run", "^$", "./..."}},
		{RepoDir, []string{"build", "./cmd/..."}},
	}
	for _, s := range steps {
		if err := goIn(s.dir, tmp, s.args...); err != nil {
			// a partial base is still useful; the check itself will report real build problems
			break
		}
	}
	_ = os.WriteFile(filepath.Join(tmp, ".complete"), []byte("ok\n"), 0o644)
	if err := os.Rename(tmp, base); err != nil {
		// another check created it meanwhile
		_ = os.RemoveAll(tmp)
	}
	return base, nil
}

// PrepareCache gives this process its own GOCACHE under dir (hard-linked from the base
// cache) and returns the function that removes it.
func PrepareCache() func() {
	if os.Getenv("VERIF_SHARED_GOCACHE") != "" {
		return func() {} // development: use the user's cache
	}
	dir, err := os.MkdirTemp("", "verif-gocache-")
	if err != nil {
		return func() {}
	}
	cache := filepath.Join(dir, "c")
	if base, err := ensureBaseCache(); err == nil {
		// cp -al: hard links; falls back to an empty cache (cold build) when that is not possible
		if out, err := exec.Command("cp", "-al", base, cache).CombinedOutput(); err != nil {
			_ = out
			_ = os.RemoveAll(cache)
		}
	}
	_ = os.MkdirAll(cache, 0o755)
	CacheDir = cache
	return func() { _ = os.RemoveAll(dir) }
}
