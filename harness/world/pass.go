package world

import (
	"bytes"
	"fmt"
	"os"
	"path/filepath"
	"strings"
)

// ApplyPass applies a per-world source pass to the generated Go files.
func ApplyPass(name string, bw *Built, modDir string) error {
	switch name {
	case "rand":
		return passRand(bw, modDir)
	}
	return fmt.Errorf("unknown pass %q", name)
}

// passRand (C20) routes the generated mock's randomness and clock through the
// simulator: math/rand.Intn / Seed, crypto/rand.Read, time.Now in *_http_mock.pb.go
// of the scratch copy.
func passRand(bw *Built, modDir string) error {
	for _, pkg := range bw.GoPkgs {
		dir := filepath.Join(modDir, strings.TrimPrefix(pkg, ModName+"/"))
		files, _ := filepath.Glob(filepath.Join(dir, "*_http_mock.pb.go"))
		for _, f := range files {
			src, err := os.ReadFile(f)
			if err != nil {
				return err
			}
			out := src
			out = bytes.ReplaceAll(out, []byte("rand.Intn("), []byte("simrt.MockIntn("))
			out = bytes.ReplaceAll(out, []byte("cryptosimrt.MockIntn("), []byte("cryptorand.Intn("))
			out = bytes.ReplaceAll(out, []byte("rand.Seed("), []byte("simrt.MockSeed("))
			out = bytes.ReplaceAll(out, []byte("cryptorand.Read("), []byte("simrt.MockCryptoRead("))
			out = bytes.ReplaceAll(out, []byte("time.Now()"), []byte("simrt.MockNow()"))
			out = bytes.Replace(out, []byte("import ("), []byte("import (\n\tsimrt \"verif/simrt\"\n"), 1)
			out = append(out, []byte("\n\nvar _ = rand.Intn\nvar _ = cryptorand.Read\nvar _ = time.Now\nvar _ = simrt.MockIntn\n")...)
			if err := os.WriteFile(f, out, 0o644); err != nil {
				return err
			}
		}
	}
	return nil
}
