package world

import "fmt"

// ApplyPass applies a source pass to the generated Go files of one world.
func ApplyPass(name string, bw *Built, modDir string) error {
	switch name {
	case "yield":
		return passYield(bw, modDir)
	case "rand":
		return passRand(bw, modDir)
	}
	return fmt.Errorf("unknown pass %q", name)
}

func passYield(bw *Built, modDir string) error { return fmt.Errorf("not implemented") }
func passRand(bw *Built, modDir string) error  { return fmt.Errorf("not implemented") }
