package world

import (
	"bytes"
	"fmt"
	"os"
	"path/filepath"
	"strings"
)

// ApplyPass applies a per-world source pass to the generated Go files.
func ApplyPass(name string, bw *Built, modDir string) error {
	switch name {
	case "rand":
		return passRand(bw, modDir)
	}
	return fmt.Errorf("unknown pass %q", name)
}

// passRand (C20) routes the generated mock's randomness and clock through the
// simulator: math/rand.Intn / Seed, crypto/rand.Read, time.Now in *_http_mock.pb.go
// of the scratch copy.
func passRand(bw *Built, modDir string) error {
	for _, pkg := range bw.GoPkgs {
		dir := filepath.Join(modDir, strings.TrimPrefix(pkg, ModName+"/"))
		files, _ := filepath.Glob(filepath.Join(dir, "*_http_mock.pb.go"))
		for _, f := range files {
			src, err := os.ReadFile(f)
			if err != nil {
				return err
			}
			out := src
			// package-level draws of math/rand (v1 Intn, v2 IntN); a mock that owns a *rand.Rand
			// keeps it (its seed comes from the seamed clock)
			out = bytes.ReplaceAll(out, []byte(" rand.Intn("), []byte(" simrt.MockIntn("))
			out = bytes.ReplaceAll(out, []byte("[rand.Intn("), []byte("[simrt.MockIntn("))
			out = bytes.ReplaceAll(out, []byte("(rand.Intn("), []byte("(simrt.MockIntn("))
			out = bytes.ReplaceAll(out, []byte(" rand.IntN("), []byte(" simrt.MockIntn("))
			out = bytes.ReplaceAll(out, []byte("[rand.IntN("), []byte("[simrt.MockIntn("))
			out = bytes.ReplaceAll(out, []byte("(rand.IntN("), []byte("(simrt.MockIntn("))
			out = bytes.ReplaceAll(out, []byte("\trand.Seed("), []byte("\tsimrt.MockSeed("))
			out = bytes.ReplaceAll(out, []byte("cryptorand.Read("), []byte("simrt.MockCryptoRead("))
			out = bytes.ReplaceAll(out, []byte("time.Now()"), []byte("simrt.MockNow()"))
			out = bytes.Replace(out, []byte("import ("), []byte("import (\n\tsimrt \"verif/simrt\"\n"), 1)
			// keep the imports the replaced calls were the only users of
			keep := "\n\nvar _ = simrt.MockIntn\n"
			if bytes.Contains(src, []byte("\"math/rand\"")) || bytes.Contains(src, []byte("\"math/rand/v2\"")) {
				keep += "var _ = rand.Int\n" // exists in math/rand and in math/rand/v2
			}
			if bytes.Contains(src, []byte("cryptorand \"crypto/rand\"")) {
				keep += "var _ = cryptorand.Read\n"
			}
			if bytes.Contains(src, []byte("\"time\"")) {
				keep += "var _ = time.Now\n"
			}
			out = append(out, []byte(keep)...)
			if err := os.WriteFile(f, out, 0o644); err != nil {
				return err
			}
		}
	}
	return nil
}
