package world

import (
	"encoding/json"
	"os"
	"os/exec"
	"path/filepath"
	"strings"
)

// NodeBin locates a Node >= 22.6 binary (runs .ts directly via type stripping).
func NodeBin() string {
	if v := os.Getenv("VERIF_NODE_BIN"); v != "" {
		return v
	}
	cands := []string{"/root/.nvm/versions/node/v22.22.2/bin/node"}
	for _, c := range cands {
		if _, err := os.Stat(c); err == nil {
			return c
		}
	}
	if p, err := exec.LookPath("node"); err == nil {
		return p
	}
	return ""
}

// AdmitTS loads every emitted TS module of each live world in Node (boot admission):
// a world whose modules do not load gets a BootErr.
func AdmitTS(b *Batch) {
	node := NodeBin()
	if node == "" {
		return
	}
	var files []string
	owner := map[string]*Built{}
	for _, w := range b.Worlds {
		if w.Refused != "" || w.BootErr != "" {
			continue
		}
		for _, f := range w.TSFiles {
			files = append(files, f)
			owner[f] = w
		}
	}
	if len(files) == 0 {
		return
	}
	cmd := exec.Command(node, append([]string{"--no-warnings", VerifDir + "/node/admit.mjs"}, files...)...)
	out, _ := cmd.Output()
	for _, ln := range strings.Split(string(out), "\n") {
		if ln == "" {
			continue
		}
		var r struct {
			File  string `json:"file"`
			OK    bool   `json:"ok"`
			Error string `json:"error"`
		}
		if json.Unmarshal([]byte(ln), &r) != nil || r.OK {
			continue
		}
		if w := owner[r.File]; w != nil && w.BootErr == "" {
			w.BootErr = "ts load: " + filepath.Base(r.File) + ": " + r.Error
		}
	}
}
