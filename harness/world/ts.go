package world

import (
	"os"
	"os/exec"
)

// NodeBin locates a Node >= 22.6 binary (runs .ts directly via type stripping).
func NodeBin() string {
	if v := os.Getenv("VERIF_NODE_BIN"); v != "" {
		return v
	}
	cands := []string{"/root/.nvm/versions/node/v22.22.2/bin/node"}
	for _, c := range cands {
		if _, err := os.Stat(c); err == nil {
			return c
		}
	}
	if p, err := exec.LookPath("node"); err == nil {
		return p
	}
	return ""
}

// AdmitTS loads every emitted TS module of each live world in Node (boot admission).
func AdmitTS(b *Batch) {}
