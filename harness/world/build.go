// Package world turns spec.World values into runnable artefacts: it runs the real
// plugin binaries (built from /repo's working tree), writes the generated code plus
// harness glue into a scratch Go module, and builds the runner test binary.
package world

import (
	"bytes"
	"encoding/json"
	"fmt"
	"os"
	"os/exec"
	"path/filepath"
	"sort"
	"strings"
	"sync"
	"time"

	"google.golang.org/protobuf/proto"
	"google.golang.org/protobuf/types/pluginpb"

	"verif/simrt/spec"
)

const (
	GoBin     = "go1.26.8"
	ModName   = "verifworld"
	RepoDir   = "/repo"
	VerifDir  = "/verif"
	SebufMod  = "github.com/SebastienMelki/sebuf"
	pvVersion = "v1.36.11-20260209202127-80ab13bee0bf.1"
)

// Env is the environment every go invocation runs with.
func Env() []string {
	env := os.Environ()
	for i, e := range env {
		if strings.HasPrefix(e, "PATH=") {
			env[i] = "PATH=/opt/veriftools/go1.26.8/bin:" + strings.TrimPrefix(e, "PATH=")
		}
	}
	env = append(env, "GOFLAGS=-mod=mod", "GOPROXY=off", "GOTOOLCHAIN=local", "GOSUMDB=off", "GONOSUMDB=*", "GONOSUMCHECK=1", "GOWORK=off")
	if CacheDir != "" {
		env = append(env, "GOCACHE="+CacheDir)
	}
	return env
}

// Plugins are the paths of the freshly built plugin binaries.
type Plugins struct {
	Dir string
	Bin map[string]string
}

var PluginNames = []string{"protoc-gen-go-http", "protoc-gen-go-client", "protoc-gen-openapiv3", "protoc-gen-ts-client", "protoc-gen-ts-server"}

// BuildPlugins builds the five sebuf plugins from repoDir's current working tree and
// protoc-gen-go from the module cache.
func BuildPlugins(repoDir, outDir string) (*Plugins, error) {
	if err := os.MkdirAll(outDir, 0o755); err != nil {
		return nil, err
	}
	p := &Plugins{Dir: outDir, Bin: map[string]string{}}
	cmd := exec.Command(GoBin, "build", "-o", outDir+"/", "./cmd/...")
	cmd.Dir = repoDir
	cmd.Env = Env()
	if out, err := cmd.CombinedOutput(); err != nil {
		return nil, fmt.Errorf("building sebuf plugins from %s: %v\n%s", repoDir, err, out)
	}
	cmd = exec.Command(GoBin, "build", "-o", outDir+"/protoc-gen-go", "google.golang.org/protobuf/cmd/protoc-gen-go")
	cmd.Dir = repoDir
	cmd.Env = Env()
	if out, err := cmd.CombinedOutput(); err != nil {
		return nil, fmt.Errorf("building protoc-gen-go: %v\n%s", err, out)
	}
	for _, n := range append([]string{"protoc-gen-go"}, PluginNames...) {
		p.Bin[n] = filepath.Join(outDir, n)
		if _, err := os.Stat(p.Bin[n]); err != nil {
			return nil, fmt.Errorf("plugin %s not built: %v", n, err)
		}
	}
	return p, nil
}

// PluginResult is one plugin's answer.
type PluginResult struct {
	Plugin string
	Error  string // CodeGeneratorResponse.error
	Files  map[string]string
	Order  []string
	Crash  string // non-zero exit / unparsable output
	WallMs int64
}

// RunPlugin pipes req into the plugin binary.
func RunPlugin(bin string, req *pluginpb.CodeGeneratorRequest, extraEnv ...string) *PluginResult {
	res := &PluginResult{Plugin: filepath.Base(bin), Files: map[string]string{}}
	in, err := proto.Marshal(req)
	if err != nil {
		res.Crash = "marshal request: " + err.Error()
		return res
	}
	t0 := time.Now()
	// resource limits: a runaway generator (unbounded recursion) must not take the sandbox down
	cmd := exec.Command("/bin/bash", "-c", "ulimit -v 4000000; ulimit -t 30; exec \"$0\"", bin)
	cmd.Stdin = bytes.NewReader(in)
	cmd.Env = append(os.Environ(), extraEnv...)
	var stdout, stderr bytes.Buffer
	cmd.Stdout, cmd.Stderr = &stdout, &stderr
	done := make(chan error, 1)
	if err := cmd.Start(); err != nil {
		res.Crash = err.Error()
		return res
	}
	go func() { done <- cmd.Wait() }()
	select {
	case err = <-done:
	case <-time.After(20 * time.Second):
		_ = cmd.Process.Kill()
		<-done
		res.Crash = "timeout after 20s"
		return res
	}
	res.WallMs = time.Since(t0).Milliseconds()
	if err != nil {
		res.Crash = fmt.Sprintf("exit: %v; stderr: %s", err, truncate(stderr.String(), 2000))
		return res
	}
	var resp pluginpb.CodeGeneratorResponse
	if err := proto.Unmarshal(stdout.Bytes(), &resp); err != nil {
		res.Crash = "unparsable response: " + err.Error()
		return res
	}
	if resp.Error != nil {
		res.Error = resp.GetError()
	}
	for _, f := range resp.File {
		name := f.GetName()
		if _, dup := res.Files[name]; !dup {
			res.Order = append(res.Order, name)
		}
		res.Files[name] += f.GetContent()
	}
	return res
}

func truncate(s string, n int) string {
	if len(s) > n {
		return s[:n] + "…"
	}
	return s
}

// Built describes one world after generation.
type Built struct {
	Spec    *spec.World
	Dir     string // <module>/<world>
	Refused string // a plugin refused the schema (error message) -> world skipped
	BootErr string // plugins accepted but output does not build / load
	Results map[string]*PluginResult
	GoPkgs  []string // import paths of the world's Go packages
	TSFiles []string
	OpenAPI []string
}

// Batch is a scratch module holding several worlds and one runner binary.
type Batch struct {
	Root    string // scratch root (removed by Close)
	ModDir  string
	Worlds  []*Built
	Runner  string // path of the runner test binary
	Plugins *Plugins
	BuildMs int64
	Yield   *YieldStats
}

func (b *Batch) Close() {
	if os.Getenv("VERIF_KEEP") != "" {
		fmt.Fprintln(os.Stderr, "keeping batch dir", b.Root)
		return
	}
	_ = os.RemoveAll(b.Root)
}

// Options for building a batch.
type Options struct {
	RepoDir string
	// Pass: optional source passes applied to generated Go files: "yield" (C17), "rand" (C20)
	Passes []string
	// SkipTS: do not run the TS / OpenAPI plugins.
	SkipTS bool
	// Plugins: reuse already-built plugins.
	Plugins *Plugins
	Jobs    int
}

// Generate runs all plugins for one world and writes the files under modDir.
func Generate(w *spec.World, pl *Plugins, modDir string, opt Options) *Built {
	b := &Built{Spec: w, Dir: filepath.Join(modDir, w.Name), Results: map[string]*PluginResult{}}
	if _, err := spec.Resolve(w); err != nil {
		b.Refused = "harness: spec does not link: " + err.Error()
		return b
	}
	httpParam := ""
	if w.Mock {
		// the option is a boolean flag of the plugin: every spelling a Go flag accepts as true
		// asks for the mock (chosen by the world's name, so a replay uses the same one)
		sp := []string{"true", "true", "1", "t", "T", "TRUE", "True"}
		h := 0
		for _, c := range w.Name {
			h = h*31 + int(c)
		}
		if h < 0 {
			h = -h
		}
		httpParam = "generate_mock=" + sp[h%len(sp)]
	}
	type job struct{ name, param string }
	jobs := []job{{"protoc-gen-go", ""}, {"protoc-gen-go-http", httpParam}, {"protoc-gen-go-client", ""}}
	if !opt.SkipTS && !w.NoTS {
		jobs = append(jobs, job{"protoc-gen-openapiv3", ""}, job{"protoc-gen-ts-client", ""}, job{"protoc-gen-ts-server", ""})
	}
	for _, j := range jobs {
		req := spec.BuildRequest(w, j.param)
		r := RunPlugin(pl.Bin[j.name], req)
		b.Results[j.name] = r
		if r.Crash != "" {
			b.BootErr = fmt.Sprintf("%s crashed: %s", j.name, r.Crash)
			return b
		}
		if r.Error != "" {
			b.Refused = fmt.Sprintf("%s: %s", j.name, r.Error)
			return b
		}
	}
	// write Go files; go-client after go-http (same-name codec files are expected identical)
	pkgs := map[string]bool{}
	for _, name := range []string{"protoc-gen-go", "protoc-gen-go-http", "protoc-gen-go-client"} {
		r := b.Results[name]
		for _, fn := range r.Order {
			rel := strings.TrimPrefix(fn, ModName+"/")
			if rel == fn {
				b.BootErr = fmt.Sprintf("%s emitted file outside module: %s", name, fn)
				return b
			}
			dst := filepath.Join(modDir, rel)
			if err := os.MkdirAll(filepath.Dir(dst), 0o755); err != nil {
				b.BootErr = err.Error()
				return b
			}
			if err := os.WriteFile(dst, []byte(r.Files[fn]), 0o644); err != nil {
				b.BootErr = err.Error()
				return b
			}
			pkgs[ModName+"/"+filepath.Dir(rel)] = true
		}
	}
	for p := range pkgs {
		b.GoPkgs = append(b.GoPkgs, p)
	}
	sort.Strings(b.GoPkgs)
	if !opt.SkipTS && !w.NoTS {
		tsDir := filepath.Join(b.Dir, "ts")
		_ = os.MkdirAll(tsDir, 0o755)
		for _, name := range []string{"protoc-gen-ts-client", "protoc-gen-ts-server", "protoc-gen-openapiv3"} {
			r := b.Results[name]
			for _, fn := range r.Order {
				dst := filepath.Join(tsDir, strings.ReplaceAll(fn, "/", "__"))
				_ = os.WriteFile(dst, []byte(r.Files[fn]), 0o644)
				if strings.HasSuffix(fn, ".ts") {
					b.TSFiles = append(b.TSFiles, dst)
				} else {
					b.OpenAPI = append(b.OpenAPI, dst)
				}
			}
		}
	}
	// glue
	if err := WriteGlue(w, b, modDir); err != nil {
		b.BootErr = "glue: " + err.Error()
	}
	return b
}

const goModTmpl = `module verifworld

go 1.26

require (
	buf.build/gen/go/bufbuild/protovalidate/protocolbuffers/go %s
	buf.build/go/protovalidate v0.0.0
	github.com/SebastienMelki/sebuf v0.0.0
	github.com/anishathalye/porcupine v1.3.0
	google.golang.org/protobuf v1.36.11
	pgregory.net/rapid v1.3.0
	verif/simrt v0.0.0
)

replace github.com/SebastienMelki/sebuf => %s

replace buf.build/go/protovalidate => %s/stubs/protovalidate

replace verif/simrt => %s
`

// NewBatch generates and builds a set of worlds into one runner.
func NewBatch(worlds []*spec.World, opt Options) (*Batch, error) {
	if opt.RepoDir == "" {
		opt.RepoDir = RepoDir
	}
	root, err := os.MkdirTemp("", "verif-batch-")
	if err != nil {
		return nil, err
	}
	b := &Batch{Root: root, ModDir: filepath.Join(root, "mod")}
	t0 := time.Now()
	if opt.Plugins != nil {
		b.Plugins = opt.Plugins
	} else {
		b.Plugins, err = BuildPlugins(opt.RepoDir, filepath.Join(root, "bin"))
		if err != nil {
			return b, err
		}
	}
	if err := os.MkdirAll(b.ModDir, 0o755); err != nil {
		return b, err
	}
	simrtDir := filepath.Join(VerifDir, "simrt")
	if len(opt.Passes) > 0 {
		// passes may need a private simrt copy? no: passes only touch generated files
		_ = simrtDir
	}
	gomod := fmt.Sprintf(goModTmpl, pvVersion, opt.RepoDir, VerifDir, simrtDir)
	if err := os.WriteFile(filepath.Join(b.ModDir, "go.mod"), []byte(gomod), 0o644); err != nil {
		return b, err
	}
	if sum, err := os.ReadFile(filepath.Join(VerifDir, "simrt", "go.sum")); err == nil {
		_ = os.WriteFile(filepath.Join(b.ModDir, "go.sum"), sum, 0o644)
	}
	// generate in parallel
	jobs := opt.Jobs
	if jobs <= 0 {
		jobs = 8
	}
	b.Worlds = make([]*Built, len(worlds))
	var wg sync.WaitGroup
	sem := make(chan struct{}, jobs)
	for i, w := range worlds {
		wg.Add(1)
		go func(i int, w *spec.World) {
			defer wg.Done()
			sem <- struct{}{}
			defer func() { <-sem }()
			b.Worlds[i] = Generate(w, b.Plugins, b.ModDir, opt)
		}(i, w)
	}
	wg.Wait()
	// source passes (on the scratch copy of the generated files)
	for _, pass := range opt.Passes {
		switch pass {
		case "yield":
			st, err := ApplyYieldPass(b)
			if err != nil {
				return b, fmt.Errorf("yield pass: %v", err)
			}
			b.Yield = st
		default:
			for _, bw := range b.Worlds {
				if bw.Refused != "" || bw.BootErr != "" {
					continue
				}
				if err := ApplyPass(pass, bw, b.ModDir); err != nil {
					return b, fmt.Errorf("pass %s on %s: %v", pass, bw.Spec.Name, err)
				}
			}
		}
	}
	// boot admission (Go): vet+build each world package; failing worlds are excluded
	if err := b.admitGo(); err != nil {
		return b, err
	}
	if err := b.buildRunner(); err != nil {
		return b, err
	}
	b.BuildMs = time.Since(t0).Milliseconds()
	return b, nil
}

func (b *Batch) goCmd(args ...string) ([]byte, error) {
	cmd := exec.Command(GoBin, args...)
	cmd.Dir = b.ModDir
	cmd.Env = Env()
	return cmd.CombinedOutput()
}

// admitGo runs `go vet` over all world packages and attributes diagnostics.
func (b *Batch) admitGo() error {
	var pkgs []string
	for _, w := range b.Worlds {
		if w.Refused != "" || w.BootErr != "" {
			continue
		}
		pkgs = append(pkgs, "./"+w.Spec.Name+"/...")
	}
	if len(pkgs) == 0 {
		return nil
	}
	out, err := b.goCmd(append([]string{"vet"}, pkgs...)...)
	if err == nil {
		return nil
	}
	// attribute lines to worlds
	text := string(out)
	attributed := false
	for _, w := range b.Worlds {
		if w.Refused != "" || w.BootErr != "" {
			continue
		}
		var lines []string
		for _, ln := range strings.Split(text, "\n") {
			if strings.Contains(ln, w.Spec.Name+"/") && !strings.HasPrefix(ln, "#") {
				lines = append(lines, strings.TrimSpace(ln))
			}
		}
		if len(lines) > 0 {
			if len(lines) > 8 {
				lines = lines[:8]
			}
			w.BootErr = "go vet/build: " + strings.Join(lines, "\n")
			attributed = true
		}
	}
	if !attributed {
		return fmt.Errorf("go vet failed for reasons not attributable to a world:\n%s", truncate(text, 4000))
	}
	return nil
}

func (b *Batch) buildRunner() error {
	var imports []string
	for _, w := range b.Worlds {
		if w.Refused != "" || w.BootErr != "" {
			continue
		}
		for _, p := range w.GoPkgs {
			imports = append(imports, fmt.Sprintf("\t_ %q", p))
		}
	}
	src := "package runner\n\nimport (\n\t\"testing\"\n\n\t\"verif/simrt\"\n" + strings.Join(imports, "\n") + "\n)\n\nfunc TestSim(t *testing.T) { simrt.Main(t) }\n"
	dir := filepath.Join(b.ModDir, "runner")
	if err := os.MkdirAll(dir, 0o755); err != nil {
		return err
	}
	if err := os.WriteFile(filepath.Join(dir, "runner_test.go"), []byte(src), 0o644); err != nil {
		return err
	}
	b.Runner = filepath.Join(b.Root, "runner.test")
	out, err := b.goCmd("test", "-c", "-vet=off", "-o", b.Runner, "./runner")
	if err != nil {
		return fmt.Errorf("building runner: %v\n%s", err, truncate(string(out), 6000))
	}
	return nil
}

// Live returns the worlds that booted.
func (b *Batch) Live() []*Built {
	var out []*Built
	for _, w := range b.Worlds {
		if w.Refused == "" && w.BootErr == "" {
			out = append(out, w)
		}
	}
	return out
}

// SpecJSON renders a world spec.
func SpecJSON(w *spec.World) string {
	bs, _ := json.Marshal(w)
	return string(bs)
}
