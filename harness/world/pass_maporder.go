package world

import (
	"fmt"
	"go/ast"
	"go/token"
	"go/types"
	"os"
	"os/exec"
	"path/filepath"
	"sort"
	"strings"

	"golang.org/x/tools/go/packages"
)

// SeamStats describes what the map-order / clock pass rewrote in the scratch copy
// of the repository.
type SeamStats struct {
	RangeSites []string `json:"range_sites"`
	NowSites   []string `json:"now_sites"`
	Unseamed   []string `json:"unseamed_sources"`
}

// SeamedRepo copies repoDir to dst (without .git), rewrites every range-over-map and
// time.Now in ./internal and ./cmd to the verifseam equivalents, and returns the stats.
func SeamedRepo(repoDir, dst string) (*SeamStats, error) {
	if err := os.MkdirAll(dst, 0o755); err != nil {
		return nil, err
	}
	cmd := exec.Command("rsync", "-a", "--exclude", ".git", "--exclude", "examples", "--exclude", "docs", "--exclude", "coverage", repoDir+"/", dst+"/")
	if out, err := cmd.CombinedOutput(); err != nil {
		return nil, fmt.Errorf("copying repo: %v: %s", err, out)
	}
	seamDir := filepath.Join(dst, "internal", "verifseam")
	if err := os.MkdirAll(seamDir, 0o755); err != nil {
		return nil, err
	}
	src, err := os.ReadFile(filepath.Join(VerifDir, "seam", "verifseam", "seam.go"))
	if err != nil {
		return nil, err
	}
	if err := os.WriteFile(filepath.Join(seamDir, "seam.go"), src, 0o644); err != nil {
		return nil, err
	}
	st := &SeamStats{}
	cfg := &packages.Config{
		Mode: packages.NeedName | packages.NeedFiles | packages.NeedSyntax | packages.NeedTypes | packages.NeedTypesInfo | packages.NeedImports | packages.NeedDeps | packages.NeedCompiledGoFiles,
		Dir:  dst,
		Env:  Env(),
		Fset: token.NewFileSet(),
	}
	pkgs, err := packages.Load(cfg, "./internal/...", "./cmd/...")
	if err != nil {
		return nil, err
	}
	for _, pkg := range pkgs {
		if strings.HasSuffix(pkg.PkgPath, "/verifseam") {
			continue
		}
		if len(pkg.Errors) > 0 {
			return nil, fmt.Errorf("package %s does not type-check: %v", pkg.PkgPath, pkg.Errors[0])
		}
		for i, f := range pkg.Syntax {
			path := pkg.CompiledGoFiles[i]
			if strings.HasSuffix(path, "_test.go") {
				continue
			}
			if err := seamFile(cfg.Fset, pkg, f, path, dst, st); err != nil {
				return nil, err
			}
		}
	}
	sort.Strings(st.RangeSites)
	return st, nil
}

func seamFile(fset *token.FileSet, pkg *packages.Package, f *ast.File, path, root string, st *SeamStats) error {
	src, err := os.ReadFile(path)
	if err != nil {
		return err
	}
	rel, _ := filepath.Rel(root, path)
	type edit struct {
		from, to int
		text     string
	}
	var edits []edit
	off := func(p token.Pos) int { return fset.Position(p).Offset }
	text := func(n ast.Node) string { return string(src[off(n.Pos()):off(n.End())]) }
	info := pkg.TypesInfo
	n := 0
	usesTime := false
	ast.Inspect(f, func(nd ast.Node) bool {
		switch v := nd.(type) {
		case *ast.GoStmt:
			st.Unseamed = append(st.Unseamed, fmt.Sprintf("go statement at %s:%d", rel, fset.Position(v.Pos()).Line))
		case *ast.SelectStmt:
			st.Unseamed = append(st.Unseamed, fmt.Sprintf("select statement at %s:%d", rel, fset.Position(v.Pos()).Line))
		case *ast.SelectorExpr:
			if id, ok := v.X.(*ast.Ident); ok {
				if pn, ok := info.Uses[id].(*types.PkgName); ok {
					switch pn.Imported().Path() {
					case "time":
						if v.Sel.Name == "Now" {
							site := fmt.Sprintf("%s:%d", rel, fset.Position(v.Pos()).Line)
							st.NowSites = append(st.NowSites, site)
							edits = append(edits, edit{off(v.Pos()), off(v.End()), "verifseam.Now"})
							usesTime = true
						}
					case "math/rand", "math/rand/v2", "crypto/rand":
						st.Unseamed = append(st.Unseamed, fmt.Sprintf("%s.%s at %s:%d (covered by repetition only)", pn.Imported().Path(), v.Sel.Name, rel, fset.Position(v.Pos()).Line))
					case "maps":
						if v.Sel.Name == "Keys" || v.Sel.Name == "Values" || v.Sel.Name == "All" {
							st.Unseamed = append(st.Unseamed, fmt.Sprintf("maps.%s at %s:%d (covered by repetition only)", v.Sel.Name, rel, fset.Position(v.Pos()).Line))
						}
					case "os":
						switch v.Sel.Name {
						case "Getenv", "Environ", "Getpid", "Hostname", "LookupEnv":
							st.Unseamed = append(st.Unseamed, fmt.Sprintf("os.%s at %s:%d", v.Sel.Name, rel, fset.Position(v.Pos()).Line))
						}
					}
				}
			}
			if v.Sel.Name == "MapKeys" || v.Sel.Name == "MapRange" {
				if tv, ok := info.Types[v.X]; ok && strings.HasSuffix(tv.Type.String(), "reflect.Value") {
					st.Unseamed = append(st.Unseamed, fmt.Sprintf("reflect %s at %s:%d (covered by repetition only)", v.Sel.Name, rel, fset.Position(v.Pos()).Line))
				}
			}
		case *ast.RangeStmt:
			tv, ok := info.Types[v.X]
			if !ok {
				return true
			}
			if _, isMap := tv.Type.Underlying().(*types.Map); !isMap {
				return true
			}
			n++
			site := fmt.Sprintf("%s:%d", rel, fset.Position(v.Pos()).Line)
			st.RangeSites = append(st.RangeSites, site)
			mv := fmt.Sprintf("__vm%d", n)
			kv := fmt.Sprintf("__vk%d", n)
			assign := ":="
			if v.Tok == token.ASSIGN {
				assign = "="
			}
			var pro strings.Builder
			fmt.Fprintf(&pro, "%s := %s; for _, %s := range verifseam.Keys(%q, %s) { if _, __ok := %s[%s]; !__ok { continue }; ", mv, text(v.X), kv, site, mv, mv, kv)
			if v.Key != nil {
				if id, ok := v.Key.(*ast.Ident); !ok || id.Name != "_" {
					fmt.Fprintf(&pro, "%s %s %s; ", text(v.Key), assign, kv)
					if assign == ":=" {
						fmt.Fprintf(&pro, "_ = %s; ", text(v.Key))
					}
				}
			}
			if v.Value != nil {
				if id, ok := v.Value.(*ast.Ident); !ok || id.Name != "_" {
					fmt.Fprintf(&pro, "%s %s %s[%s]; ", text(v.Value), assign, mv, kv)
					if assign == ":=" {
						fmt.Fprintf(&pro, "_ = %s; ", text(v.Value))
					}
				}
			}
			edits = append(edits, edit{off(v.For), off(v.Body.Lbrace) + 1, pro.String()})
		}
		return true
	})
	if len(edits) == 0 {
		return nil
	}
	pkgEnd := off(f.Name.End())
	edits = append(edits, edit{pkgEnd, pkgEnd, "\n\nimport verifseam \"github.com/SebastienMelki/sebuf/internal/verifseam\"\n"})
	tail := "\n\nvar _ = verifseam.Now\n"
	if usesTime {
		tail += "var _ = time.Second\n"
	}
	edits = append(edits, edit{len(src), len(src), tail})
	sort.SliceStable(edits, func(a, b int) bool {
		if edits[a].from != edits[b].from {
			return edits[a].from > edits[b].from
		}
		return edits[a].to > edits[b].to
	})
	out := append([]byte(nil), src...)
	for _, e := range edits {
		out = append(out[:e.from], append([]byte(e.text), out[e.to:]...)...)
	}
	return os.WriteFile(path, out, 0o644)
}
