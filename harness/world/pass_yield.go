package world

import (
	"bytes"
	"fmt"
	"go/ast"
	"go/token"
	"go/types"
	"os"
	"path/filepath"
	"sort"
	"strings"

	"golang.org/x/tools/go/packages"
)

// Pass "yield" (C17): for every read or write of a package-level variable, every
// field access through a pointer to a non-message struct declared in the generated
// package, and every map operation, insert `simrt.Acc(site, addr, isWrite)` before the
// enclosing statement; replace sync.Once.Do / Mutex operations by simulator-aware
// wrappers. Applied to the scratch copy of the files the sebuf plugins emitted
// (never to /repo, never to protoc-gen-go's *.pb.go).

type insertion struct {
	off  int
	text string
}

type replacement struct {
	from, to int
	text     string
}

// YieldStats describes what the pass instrumented (goes into the evidence).
type YieldStats struct {
	Files, Sites, OnceCalls, LockCalls int
	Unseamed                           []string
}

func isSebufGenerated(src []byte) bool {
	head := src
	if len(head) > 200 {
		head = head[:200]
	}
	return bytes.Contains(head, []byte("protoc-gen-go-http")) || bytes.Contains(head, []byte("protoc-gen-go-client"))
}

// ApplyYieldPass instruments all live worlds of the batch in one type-checked load.
func ApplyYieldPass(b *Batch) (*YieldStats, error) {
	st := &YieldStats{}
	var patterns []string
	for _, w := range b.Worlds {
		if w.Refused != "" || w.BootErr != "" {
			continue
		}
		patterns = append(patterns, "./"+w.Spec.Name+"/...")
	}
	if len(patterns) == 0 {
		return st, nil
	}
	cfg := &packages.Config{
		Mode: packages.NeedName | packages.NeedFiles | packages.NeedSyntax | packages.NeedTypes | packages.NeedTypesInfo | packages.NeedImports | packages.NeedDeps | packages.NeedCompiledGoFiles,
		Dir:  b.ModDir,
		Env:  Env(),
		Fset: token.NewFileSet(),
	}
	pkgs, err := packages.Load(cfg, patterns...)
	if err != nil {
		return st, err
	}
	for _, pkg := range pkgs {
		if len(pkg.Errors) > 0 {
			// leave the package alone: boot admission will report the diagnostics
			continue
		}
		for i, f := range pkg.Syntax {
			path := pkg.CompiledGoFiles[i]
			src, err := os.ReadFile(path)
			if err != nil {
				return st, err
			}
			if !isSebufGenerated(src) {
				continue
			}
			out, n, err := instrumentFile(cfg.Fset, pkg, f, src, st)
			if err != nil {
				return st, fmt.Errorf("%s: %v", path, err)
			}
			if n == 0 {
				continue
			}
			st.Files++
			if err := os.WriteFile(path, out, 0o644); err != nil {
				return st, err
			}
		}
	}
	return st, nil
}

func isSyncType(t types.Type, name string) bool {
	if p, ok := t.(*types.Pointer); ok {
		t = p.Elem()
	}
	n, ok := t.(*types.Named)
	if !ok || n.Obj().Pkg() == nil {
		return false
	}
	return n.Obj().Pkg().Path() == "sync" && n.Obj().Name() == name
}

func isAnySync(t types.Type) bool {
	if p, ok := t.(*types.Pointer); ok {
		t = p.Elem()
	}
	n, ok := t.(*types.Named)
	if !ok || n.Obj().Pkg() == nil {
		return false
	}
	p := n.Obj().Pkg().Path()
	return p == "sync" || p == "sync/atomic"
}

func isProtoMessage(t types.Type) bool {
	ms := types.NewMethodSet(t)
	for i := 0; i < ms.Len(); i++ {
		if ms.At(i).Obj().Name() == "ProtoReflect" {
			return true
		}
	}
	return false
}

type instr struct {
	fset *token.FileSet
	pkg  *packages.Package
	src  []byte
	file string
	ins  []insertion
	rep  []replacement
	st   *YieldStats
	// curFunc is the innermost function (declaration or literal) around the statements
	// being instrumented: variables declared outside a literal are captured by it.
	curFunc ast.Node
	rangeN  int
}

// notGoroutineSafe lists library types whose methods must not be called concurrently on
// one value (their documentation says so): a call on a shared value is a write to it.
var notGoroutineSafe = map[string]bool{
	"math/rand.Rand": true, "math/rand/v2.Rand": true, "bytes.Buffer": true, "strings.Builder": true,
	"bufio.Writer": true, "bufio.Reader": true, "bufio.ReadWriter": true,
}

func namedKey(t types.Type) string {
	if p, ok := t.(*types.Pointer); ok {
		t = p.Elem()
	}
	if n, ok := t.(*types.Named); ok && n.Obj().Pkg() != nil {
		return n.Obj().Pkg().Path() + "." + n.Obj().Name()
	}
	return ""
}

// captured reports whether obj is a variable of an enclosing function used inside the
// function literal being instrumented.
func (x *instr) captured(obj *types.Var) bool {
	fl, ok := x.curFunc.(*ast.FuncLit)
	if !ok || obj.IsField() || obj.Parent() == nil || obj.Parent() == x.pkg.Types.Scope() || obj.Parent() == types.Universe {
		return false
	}
	return obj.Pos() < fl.Pos() || obj.Pos() > fl.End()
}

func (x *instr) off(p token.Pos) int { return x.fset.Position(p).Offset }

func (x *instr) text(n ast.Node) string { return string(x.src[x.off(n.Pos()):x.off(n.End())]) }

func (x *instr) site(p token.Pos) string {
	pos := x.fset.Position(p)
	return fmt.Sprintf("%s:%d", filepath.Base(pos.Filename), pos.Line)
}

// simple reports whether evaluating &expr has no side effects (identifiers and
// selector chains of identifiers).
func simple(e ast.Expr) bool {
	switch v := e.(type) {
	case *ast.Ident:
		return true
	case *ast.SelectorExpr:
		return simple(v.X)
	case *ast.ParenExpr:
		return simple(v.X)
	case *ast.StarExpr:
		return simple(v.X)
	}
	return false
}

// accesses collects the probe calls for one statement's own expressions.
func (x *instr) accesses(stmt ast.Stmt) []string {
	var out []string
	seen := map[string]bool{}
	add := func(s string) {
		if !seen[s] {
			seen[s] = true
			out = append(out, s)
		}
	}
	writes := map[ast.Expr]bool{}
	markWrite := func(e ast.Expr) {
		for {
			writes[e] = true
			if p, ok := e.(*ast.ParenExpr); ok {
				e = p.X
				continue
			}
			break
		}
	}
	switch s := stmt.(type) {
	case *ast.AssignStmt:
		if s.Tok != token.DEFINE {
			for _, l := range s.Lhs {
				markWrite(l)
				if ix, ok := l.(*ast.IndexExpr); ok {
					writes[ix] = true
				}
			}
		}
	case *ast.IncDecStmt:
		markWrite(s.X)
	}
	info := x.pkg.TypesInfo
	var visit func(n ast.Node) bool
	visit = func(n ast.Node) bool {
		switch v := n.(type) {
		case nil:
			return false
		case *ast.BlockStmt, *ast.FuncLit:
			return false // nested statement lists are handled on their own
		case *ast.CaseClause, *ast.CommClause:
			return false
		case *ast.CallExpr:
			if sel, ok := v.Fun.(*ast.SelectorExpr); ok && simple(sel.X) {
				if tv, ok := info.Types[sel.X]; ok && notGoroutineSafe[namedKey(tv.Type)] {
					shared := false
					switch r := sel.X.(type) {
					case *ast.Ident:
						if obj, ok := info.Uses[r].(*types.Var); ok {
							shared = obj.Parent() == x.pkg.Types.Scope() || x.captured(obj)
						}
					case *ast.SelectorExpr:
						shared = true // a field of some struct: shared whenever the struct is
					}
					if shared {
						addr := "&" + x.text(sel.X)
						if _, isPtr := tv.Type.(*types.Pointer); isPtr {
							addr = x.text(sel.X)
						}
						add(fmt.Sprintf("simrt.Acc(%q, unsafe.Pointer(%s), true)", x.site(v.Pos()), addr))
					}
				}
			}
			// delete(m, k) is a map write
			if id, ok := v.Fun.(*ast.Ident); ok && id.Name == "delete" && len(v.Args) == 2 {
				if tv, ok := info.Types[v.Args[0]]; ok {
					if _, isMap := tv.Type.Underlying().(*types.Map); isMap && simple(v.Args[0]) {
						add(fmt.Sprintf("simrt.AccMap(%q, %s, true)", x.site(v.Pos()), x.text(v.Args[0])))
					}
				}
			}
		case *ast.RangeStmt:
			if tv, ok := info.Types[v.X]; ok {
				if _, isMap := tv.Type.Underlying().(*types.Map); isMap && simple(v.X) {
					add(fmt.Sprintf("simrt.AccMap(%q, %s, false)", x.site(v.X.Pos()), x.text(v.X)))
				}
			}
			ast.Inspect(v.X, visit)
			return false // body is a block handled separately; key/value are locals
		case *ast.IndexExpr:
			if tv, ok := info.Types[v.X]; ok {
				if _, isMap := tv.Type.Underlying().(*types.Map); isMap && simple(v.X) {
					add(fmt.Sprintf("simrt.AccMap(%q, %s, %v)", x.site(v.Pos()), x.text(v.X), writes[v]))
				}
			}
		case *ast.SelectorExpr:
			sel := info.Selections[v]
			if sel != nil && sel.Kind() == types.FieldVal && simple(v.X) {
				recv := sel.Recv()
				if p, ok := recv.(*types.Pointer); ok {
					if n, ok := p.Elem().(*types.Named); ok && (n.Obj().Pkg() == x.pkg.Types || (writes[v] && isProtoMessage(recv))) {
						if _, isStruct := n.Underlying().(*types.Struct); isStruct && !isAnySync(sel.Type()) {
							add(fmt.Sprintf("simrt.AccF(%q, func() unsafe.Pointer { return unsafe.Pointer(&%s) }, %v)", x.site(v.Pos()), x.text(v), writes[v]))
						}
					}
				}
			}
		case *ast.Ident:
			if obj, ok := info.Uses[v].(*types.Var); ok && obj.Parent() == x.pkg.Types.Scope() && !isAnySync(obj.Type()) {
				add(fmt.Sprintf("simrt.Acc(%q, unsafe.Pointer(&%s), %v)", x.site(v.Pos()), v.Name, writes[v]))
			} else if ok && x.captured(obj) && !isAnySync(obj.Type()) {
				// a variable of the enclosing function shared by every invocation of the literal
				// (a handler closure runs once per request)
				add(fmt.Sprintf("simrt.Acc(%q, unsafe.Pointer(&%s), %v)", x.site(v.Pos()), v.Name, writes[v]))
			}
		}
		return true
	}
	switch s := stmt.(type) {
	case *ast.IfStmt:
		if s.Init != nil {
			ast.Inspect(s.Init, visit)
		}
		ast.Inspect(s.Cond, visit)
	case *ast.ForStmt:
		// loop headers are evaluated repeatedly: probe only the init
		if s.Init != nil {
			ast.Inspect(s.Init, visit)
		}
	case *ast.SwitchStmt:
		if s.Init != nil {
			ast.Inspect(s.Init, visit)
		}
		if s.Tag != nil {
			ast.Inspect(s.Tag, visit)
		}
	case *ast.TypeSwitchStmt:
		if s.Init != nil {
			ast.Inspect(s.Init, visit)
		}
	case *ast.RangeStmt:
		visit(s)
	case *ast.BlockStmt, *ast.SelectStmt, *ast.LabeledStmt:
	case *ast.GoStmt:
		x.st.Unseamed = append(x.st.Unseamed, "go statement at "+x.site(s.Pos()))
	default:
		ast.Inspect(stmt, visit)
	}
	return out
}

func (x *instr) block(list []ast.Stmt) {
	for _, stmt := range list {
		if acc := x.accesses(stmt); len(acc) > 0 {
			x.st.Sites += len(acc)
			x.ins = append(x.ins, insertion{off: x.off(stmt.Pos()), text: strings.Join(acc, "; ") + "; "})
		}
	}
}

func (x *instr) walk(f *ast.File) {
	info := x.pkg.TypesInfo
	var stack []ast.Node
	innermostFunc := func() ast.Node {
		for i := len(stack) - 1; i >= 0; i-- {
			switch stack[i].(type) {
			case *ast.FuncLit, *ast.FuncDecl:
				return stack[i]
			}
		}
		return nil
	}
	ast.Inspect(f, func(n ast.Node) bool {
		if n == nil {
			stack = stack[:len(stack)-1]
			return true
		}
		stack = append(stack, n)
		x.curFunc = innermostFunc()
		switch v := n.(type) {
		case *ast.FuncDecl:
			// every function of the generated code starts with a pre-emption point: whatever a
			// caller holds across the call (a slice it got back, a buffer it released) can meet
			// another request's use of the same thing
			if v.Body != nil && v.Name.Name != "init" {
				x.ins = append(x.ins, insertion{off: x.off(v.Body.Lbrace) + 1, text: fmt.Sprintf(" simrt.Step(%q); ", x.site(v.Pos()))})
				x.st.Sites++
			}
		case *ast.FuncLit:
			if v.Body != nil {
				x.ins = append(x.ins, insertion{off: x.off(v.Body.Lbrace) + 1, text: fmt.Sprintf(" simrt.Step(%q); ", x.site(v.Pos()))})
				x.st.Sites++
			}
		case *ast.RangeStmt:
			// range over a map: Go randomises the order per statement; with pre-emption points in
			// the body that order would leak into the schedule. Iterate over simrt.MapKeys
			// (sorted, rotated by a plan-determined amount) instead.
			if tv, ok := info.Types[v.X]; ok && simple(v.X) && v.Body != nil {
				if _, isMap := tv.Type.Underlying().(*types.Map); isMap {
					x.rangeN++
					mk := fmt.Sprintf("simMapKey%d", x.rangeN)
					m := x.text(v.X)
					tok := ":="
					if v.Tok == token.ASSIGN {
						tok = "="
					}
					hdr := fmt.Sprintf("for _, %s := range simrt.MapKeys(%s) {", mk, m)
					named := func(e ast.Expr) string {
						if e == nil {
							return ""
						}
						if id, ok := e.(*ast.Ident); ok && id.Name == "_" {
							return ""
						}
						return x.text(e)
					}
					if kname := named(v.Key); kname != "" {
						hdr += fmt.Sprintf(" %s %s %s;", kname, tok, mk)
					}
					if vname := named(v.Value); vname != "" {
						hdr += fmt.Sprintf(" %s %s %s[%s];", vname, tok, m, mk)
					}
					if named(v.Key) == "" && named(v.Value) == "" {
						hdr += fmt.Sprintf(" _ = %s;", mk)
					}
					x.rep = append(x.rep, replacement{from: x.off(v.For), to: x.off(v.Body.Lbrace) + 1, text: hdr})
					x.st.Sites++
				}
			}
		case *ast.BlockStmt:
			x.block(v.List)
		case *ast.CaseClause:
			x.block(v.Body)
		case *ast.CommClause:
			x.block(v.Body)
		case *ast.SelectStmt:
			x.st.Unseamed = append(x.st.Unseamed, "select statement at "+x.site(v.Pos()))
		case *ast.CallExpr:
			sel, ok := v.Fun.(*ast.SelectorExpr)
			if !ok {
				return true
			}
			tv, ok := info.Types[sel.X]
			if !ok || !simple(sel.X) {
				return true
			}
			recv := x.text(sel.X)
			recvType := tv.Type
			// a method promoted from an embedded field (struct{ sync.Mutex; ... }): the call is
			// on that field
			if selInfo := info.Selections[sel]; selInfo != nil && selInfo.Kind() == types.MethodVal && len(selInfo.Index()) > 1 {
				t := recvType
				for _, idx := range selInfo.Index()[:len(selInfo.Index())-1] {
					if p, ok := t.Underlying().(*types.Pointer); ok {
						t = p.Elem()
					}
					st, ok := t.Underlying().(*types.Struct)
					if !ok || idx >= st.NumFields() {
						break
					}
					recv += "." + st.Field(idx).Name()
					t = st.Field(idx).Type()
				}
				recvType = t
			}
			tv.Type = recvType
			addr := "&" + recv
			if _, isPtr := tv.Type.(*types.Pointer); isPtr {
				addr = recv
			}
			switch {
			case isSyncType(tv.Type, "Once") && sel.Sel.Name == "Do" && len(v.Args) == 1:
				x.rep = append(x.rep, replacement{from: x.off(v.Pos()), to: x.off(v.Lparen) + 1, text: "simrt.OnceDo(" + addr + ", "})
				x.st.OnceCalls++
			case isSyncType(tv.Type, "Mutex") || isSyncType(tv.Type, "RWMutex"):
				fn := map[string]string{"Lock": "Lock", "Unlock": "Unlock", "RLock": "RLock", "RUnlock": "RUnlock"}[sel.Sel.Name]
				if fn == "" {
					x.st.Unseamed = append(x.st.Unseamed, "sync method "+sel.Sel.Name+" at "+x.site(v.Pos()))
					return true
				}
				arg2 := addr
				if fn == "RLock" || fn == "RUnlock" {
					x.rep = append(x.rep, replacement{from: x.off(v.Pos()), to: x.off(v.End()), text: fmt.Sprintf("simrt.%s(unsafe.Pointer(%s), %s)", fn, addr, arg2)})
				} else {
					x.rep = append(x.rep, replacement{from: x.off(v.Pos()), to: x.off(v.End()), text: fmt.Sprintf("simrt.%s(unsafe.Pointer(%s), %s)", fn, addr, arg2)})
				}
				x.st.LockCalls++
			case isSyncType(tv.Type, "Pool") && sel.Sel.Name == "Get" && len(v.Args) == 0:
				x.rep = append(x.rep, replacement{from: x.off(v.Pos()), to: x.off(v.End()), text: "simrt.PoolGet(" + addr + ")"})
				x.st.LockCalls++
			case isSyncType(tv.Type, "Pool") && sel.Sel.Name == "Put" && len(v.Args) == 1:
				x.rep = append(x.rep, replacement{from: x.off(v.Pos()), to: x.off(v.Lparen) + 1, text: "simrt.PoolPut(" + addr + ", "})
				x.st.LockCalls++
			case isAnySync(tv.Type):
				x.st.Unseamed = append(x.st.Unseamed, fmt.Sprintf("unseamed sync object %s.%s at %s", tv.Type.String(), sel.Sel.Name, x.site(v.Pos())))
			}
		}
		return true
	})
}

func instrumentFile(fset *token.FileSet, pkg *packages.Package, f *ast.File, src []byte, st *YieldStats) ([]byte, int, error) {
	x := &instr{fset: fset, pkg: pkg, src: src, st: st}
	x.walk(f)
	if len(x.ins) == 0 && len(x.rep) == 0 {
		return src, 0, nil
	}
	type edit struct {
		from, to int
		text     string
	}
	var edits []edit
	for _, i := range x.ins {
		edits = append(edits, edit{i.off, i.off, i.text})
	}
	for _, r := range x.rep {
		edits = append(edits, edit{r.from, r.to, r.text})
	}
	// imports right after the package clause
	pkgEnd := x.off(f.Name.End())
	imp := "\n\nimport \"unsafe\"\n"
	if !bytes.Contains(src, []byte(`simrt "verif/simrt"`)) {
		imp = "\n\nimport simrt \"verif/simrt\"\nimport \"unsafe\"\n"
	}
	edits = append(edits, edit{pkgEnd, pkgEnd, imp})
	edits = append(edits, edit{len(src), len(src), "\n\nvar _ = unsafe.Pointer(nil)\nvar _ = simrt.Acc\n"})
	sort.SliceStable(edits, func(a, b int) bool {
		if edits[a].from != edits[b].from {
			return edits[a].from > edits[b].from
		}
		return edits[a].to > edits[b].to
	})
	out := append([]byte(nil), src...)
	last := len(out) + 1
	for _, e := range edits {
		if e.to > last {
			return nil, 0, fmt.Errorf("overlapping edits at %d", e.from)
		}
		out = append(out[:e.from], append([]byte(e.text), out[e.to:]...)...)
		last = e.from
	}
	return out, len(edits), nil
}
