// Package gen is the seeded schema generator ("schemagen"): VERIF_SEED -> worlds.
// It draws a feature mask first (swarm style) so most worlds are small and differ in
// which features are on. It uses its own splitmix64 so results do not depend on
// math/rand versions.
package gen

import (
	"fmt"
	"sort"
	"strings"

	"verif/simrt/spec"
)

type rng struct{ s uint64 }

func (r *rng) next() uint64 {
	r.s += 0x9e3779b97f4a7c15
	z := r.s
	z = (z ^ (z >> 30)) * 0xbf58476d1ce4e5b9
	z = (z ^ (z >> 27)) * 0x94d049bb133111eb
	return z ^ (z >> 31)
}
func (r *rng) intn(n int) int {
	if n <= 0 {
		return 0
	}
	return int(r.next() % uint64(n))
}
func (r *rng) chance(num, den int) bool { return r.intn(den) < num }
func pick[T any](r *rng, xs []T) T        { return xs[r.intn(len(xs))] }

// Mix derives a sub-seed.
func Mix(seed uint64, salt uint64) uint64 {
	r := rng{s: seed ^ (salt * 0x9e3779b97f4a7c15)}
	return r.next()
}

// Config selects the feature space.
type Config struct {
	Seed uint64
	Name string
	// Features that may be switched on (nil = all safe features).
	Allow map[string]bool
	// Force switches features on regardless of the mask draw.
	Force []string
	Mock  bool
	// MinServices etc. for concurrency worlds.
	MinServices int
	MinMethods  int
	// AltNames uses a second set of service names (for a second file of the same world).
	AltNames bool
	// MockSafe restricts response messages to the shapes the mock generator supports
	// (other shapes live in probe worlds).
	MockSafe bool
	// TSSafe avoids shapes the TS server generator is known not to load (probe worlds only).
	TSSafe bool
	// NoTS marks the world as Go-only (spec.World.NoTS).
	NoTS bool
	// AnnService adds a service with one POST method per annotated message type (request and
	// response are that type), so every custom codec sits at the top level of some call.
	AnnService bool
}

// Feature names.
const (
	FBasePath     = "base_path"
	FPathVars     = "path_vars"
	FQuery        = "query"
	FQueryOnBody  = "query_on_body_verb"
	FHeadersSvc   = "headers_service"
	FHeadersMeth  = "headers_method"
	FHeaderOverride = "header_override"
	FNested       = "nested"
	FRecursive    = "recursive"
	FEnum         = "enum"
	FMap          = "map"
	FOneof        = "oneof"
	FOptional     = "optional"
	FRepeated     = "repeated"
	FTimestamp    = "timestamp"
	FBytes        = "bytes"
	FRules        = "rules"
	FCustomError  = "custom_error"
	FAllKinds     = "all_scalar_kinds"
	FMultiService = "multi_service"
	FNameShapes   = "name_shapes"
	FSharedPath   = "shared_path_across_verbs"
	// RSharedRenamed (probe worlds): every method that can reuses the previous path shape under
	// another verb, with the variables named differently (/items/{id} and /items/{id_alt})
	RSharedRenamed = "shared_path_shape_with_renamed_variables"
	FSharedReq    = "request_message_shared_by_two_methods"
	FTrailingSlash = "path_with_trailing_slash"
	FQueryCard    = "query_repeated_or_optional"
	FPartialConfig = "methods_without_path_config"
	FSharedMethodNames = "method_names_shared_across_services"
	FHeaderDeprecated = "header_marked_deprecated"
	FSharedResp   = "response_message_shared_across_services"
	FGoPkgTail    = "go_package_without_explicit_name"
	FMapWKT       = "map_with_message_values_from_another_package"
	FPathVarOrder = "path_variables_declared_in_another_order"
	FMethHdrVariants = "same_method_header_name_with_different_declarations"
	FInt64Number  = "ann_int64_number"
	FEnumValue    = "ann_enum_value"
	FEnumNumber   = "ann_enum_number"
	FNullable     = "ann_nullable"
	FEmptyBehav   = "ann_empty_behavior"
	FTsFormat     = "ann_timestamp_format"
	FBytesEnc     = "ann_bytes_encoding"
	FFlatten      = "ann_flatten"
	FOneofDisc    = "ann_oneof_discriminator"
	FUnwrap       = "ann_unwrap"
	FExamples     = "field_examples"
	// risky (known or suspected to be broken on the pinned tree): probe worlds only
	RDefaultPath   = "risky_default_path"
	RVerbOnly      = "risky_verb_only"
	RRepeatedQuery = "risky_repeated_query"
	ROptionalQuery = "risky_optional_query"
	RBaseNoSlash   = "risky_base_no_leading_slash"
	RPathQueryTS   = "risky_path_plus_query_bodyless"
	RDupMethodHeader = "risky_same_header_on_two_methods"
	RPathNoSlash     = "risky_path_without_leading_slash"
	RMockRecursive   = "risky_mock_with_recursive_type"
	RPathVarDigit    = "risky_path_variable_named_with_underscore_digit"
	ROptionalOverride = "risky_optional_method_header_overrides_required_service_header"
	RSameMethodName  = "risky_same_method_name_in_two_services"
)

var SafeFeatures = []string{FBasePath, FPathVars, FQuery, FQueryOnBody, FHeadersSvc, FHeadersMeth, FHeaderOverride, FNested, FRecursive,
	FEnum, FMap, FOneof, FOptional, FRepeated, FTimestamp, FBytes, FRules, FCustomError, FAllKinds, FMultiService, FNameShapes, FSharedPath, FSharedReq}

// LateFeatures are drawn from the side stream.
var LateFeatures = []string{FQueryCard, FPartialConfig, FSharedMethodNames, FHeaderDeprecated, FSharedResp, FGoPkgTail, FPathVarOrder, FMethHdrVariants, FMapWKT}

var AnnotationFeatures = []string{FInt64Number, FEnumValue, FEnumNumber, FNullable, FEmptyBehav, FTsFormat, FBytesEnc, FFlatten, FOneofDisc, FUnwrap}

var pathKinds = []string{"string", "string", "string", "int32", "int64", "uint32", "uint64", "bool", "float", "double", "sint32", "sint64", "fixed32", "fixed64", "sfixed32", "sfixed64"}
var basicKinds = []string{"string", "int32", "int64", "bool", "double"}
var allKinds = []string{"string", "int32", "int64", "uint32", "uint64", "sint32", "sint64", "fixed32", "fixed64", "sfixed32", "sfixed64", "bool", "float", "double"}
var mapKeyKinds = []string{"string", "int32", "int64", "uint32", "uint64", "bool", "sint32", "fixed64"}

var methodNames = []string{"Get", "List", "Create", "Update", "Delete", "Search", "Fetch", "Put", "Patch", "Lookup", "Sync", "Check"}
var methodNamesShaped = []string{"GetUser", "ListItems", "GetHTTPInfo", "Get2Fa", "CreateV2Item", "UpdateURLMap", "DeleteXMLDoc", "RunA", "FetchIDs", "SyncS3Data"}
var fieldWords = []string{"id", "name", "value", "count", "flag", "score", "note", "tag", "size", "kind", "owner", "state", "level", "code"}
var fieldWordsShaped = []string{"user_id", "item_name", "f1", "x2_y", "page_size", "is_ok", "a_b_c", "url_path", "v2", "http_code"}

type g struct {
	r    *rng
	r2   *rng // side stream for features added later (keeps earlier worlds unchanged)
	r3   *rng // second side stream (wave 6 shapes)
	cfg  Config
	on   map[string]bool
	w    *spec.World
	f    *spec.File
	pkg  string
	used map[string]bool
	msgN int
	routes []route
	usedM  map[string]bool
	annMsgs []string // names of annotated message types usable as nested or top-level bodies
	annMix  []string // messages combining two annotation kinds (only reached through the Annotated echo service)
	usedHdrM map[string]bool
	svcHdr   map[string]*spec.Header
	lastMethHdr map[string]string
	sharedReqDone map[string]bool
	goPkg string // Go package name protogen derives for the file
	sharedResp, sharedRespSvc string // FSharedResp: first response type and the service that declared it
	prevPath    map[string]*sharedPath // per service: last explicit path and its variables
}

type sharedPath struct {
	path  string
	vars  []*spec.Field
	verbs map[string]bool
}

type route struct {
	verb string
	segs []string
}

func segsOf(p string) []string {
	var out []string
	for _, s := range strings.Split(strings.Trim(p, "/"), "/") {
		if strings.HasPrefix(s, "{") {
			out = append(out, "*")
		} else {
			out = append(out, s)
		}
	}
	return out
}

func (x *g) conflicts(verb string, segs []string) bool {
	for _, r := range x.routes {
		if r.verb != verb || len(r.segs) != len(segs) {
			continue
		}
		all := true
		for i := range segs {
			if r.segs[i] != "*" && segs[i] != "*" && r.segs[i] != segs[i] {
				all = false
				break
			}
		}
		if all {
			return true
		}
	}
	return false
}

func (x *g) has(f string) bool { return x.on[f] }

// World generates one world from cfg.
func World(cfg Config) *spec.World {
	x := &g{r: &rng{s: cfg.Seed}, cfg: cfg, on: map[string]bool{}, used: map[string]bool{}}
	// feature mask: each allowed feature on with probability 1/2 (swarm)
	pool := SafeFeatures
	for _, f := range pool {
		if cfg.Allow != nil && !cfg.Allow[f] {
			continue
		}
		if x.r.chance(1, 2) {
			x.on[f] = true
		}
	}
	if cfg.Allow != nil {
		var extra []string
		for f := range cfg.Allow {
			extra = append(extra, f)
		}
		sort.Strings(extra)
		for _, f := range extra {
			if !contains(pool, f) && !contains(LateFeatures, f) && x.r.chance(1, 2) {
				x.on[f] = true
			}
		}
	}
	x.r2 = &rng{s: Mix(cfg.Seed, 0x51de)}
	x.r3 = &rng{s: Mix(cfg.Seed, 0x3c03)}
	for _, f := range LateFeatures {
		if (cfg.Allow == nil || cfg.Allow[f]) && x.r2.chance(1, 2) {
			x.on[f] = true
		}
	}
	for _, f := range cfg.Force {
		x.on[f] = true
	}
	if cfg.AnnService {
		// worlds with the Annotated echo service carry every annotated type (except that custom
		// enum values and numeric enum encoding are kept on different enums)
		for _, f := range AnnotationFeatures {
			x.on[f] = true
		}
	}
	if cfg.Mock && !x.on[RMockRecursive] {
		// the mock generator recurses without bound on recursive message types (probe world only)
		delete(x.on, FRecursive)
	}
	name := cfg.Name
	x.pkg = name + ".v1"
	x.w = &spec.World{Name: name, Mock: cfg.Mock, NoTS: cfg.NoTS}
	x.f = &spec.File{Path: name + "/svc.proto", Package: x.pkg, GoPackage: "verifworld/" + name + "/pb;pb"}
	x.goPkg = "pb"
	if x.has(FGoPkgTail) {
		// no explicit package name: protogen derives pb_api from the import path's last element
		x.f.GoPackage = "verifworld/" + name + "/pb-api"
		x.goPkg = "pb_api"
	}
	x.w.Files = []*spec.File{x.f}
	var feats []string
	for f := range x.on {
		feats = append(feats, f)
	}
	sort.Strings(feats)
	x.w.Features = feats

	x.sharedTypes()
	nSvc := 1
	if x.has(RSameMethodName) {
		x.cfg.MinServices = 2
	}
	if x.has(RDupMethodHeader) && x.cfg.MinMethods < 2 {
		x.cfg.MinMethods = 2
	}
	if x.has(FMultiService) {
		nSvc = 1 + x.r.intn(3)
	}
	if nSvc < x.cfg.MinServices {
		nSvc = x.cfg.MinServices
	}
	svcNames := []string{"Alpha", "BetaService", "GammaAPI"}
	if cfg.AltNames {
		svcNames = []string{"Delta", "EpsilonService", "ZetaAPI"}
	}
	for i := 0; i < nSvc; i++ {
		x.service(svcNames[i], i)
	}
	if cfg.AnnService && len(x.annMsgs) > 0 {
		s := &spec.Service{Name: "Annotated"}
		bp := "/ann"
		s.BasePath = &bp
		for _, n := range x.annMsgs {
			s.Methods = append(s.Methods, &spec.Method{Name: "Echo" + n, In: x.fq(n), Out: x.fq(n), HasConfig: true, Verb: "POST", Path: "/" + strings.ToLower(n)})
		}
		for _, n := range x.annMix {
			s.Methods = append(s.Methods, &spec.Method{Name: "Echo" + n, In: x.fq(n), Out: x.fq(n), HasConfig: true, Verb: "POST", Path: "/" + strings.ToLower(n)})
		}
		x.f.Services = append(x.f.Services, s)
	}
	return x.w
}

func contains(xs []string, s string) bool {
	for _, x := range xs {
		if x == s {
			return true
		}
	}
	return false
}

func (x *g) fq(name string) string { return "." + x.pkg + "." + name }

func (x *g) sharedTypes() {
	if x.has(FEnumNumber) {
		x.f.Enums = append(x.f.Enums, &spec.Enum{Name: "Shade", Values: []*spec.EnumValue{{Name: "SHADE_UNSPECIFIED", Number: 0}, {Name: "SHADE_LIGHT", Number: 1}, {Name: "SHADE_DARK", Number: 5}}})
	}
	if x.has(FEnum) || x.has(FEnumValue) {
		e := &spec.Enum{Name: "Color", Values: []*spec.EnumValue{{Name: "COLOR_UNSPECIFIED", Number: 0}, {Name: "COLOR_RED", Number: 1}, {Name: "COLOR_DARK_BLUE", Number: 2}, {Name: "COLOR_X9", Number: 7}}}
		if x.has(FEnumValue) {
			for i, v := range e.Values {
				c := []string{"unknown", "red", "dark-blue", "x 9"}[i]
				v.Custom = &c
			}
		}
		x.f.Enums = append(x.f.Enums, e)
	}
	if x.has(FNested) || x.has(FMap) || x.has(FRepeated) || x.has(FOneof) || x.has(FFlatten) || x.has(FOneofDisc) || x.has(FUnwrap) || x.has(FEmptyBehav) {
		it := &spec.Message{Name: "Item"}
		it.Fields = append(it.Fields, &spec.Field{Name: "label", Number: 1, Kind: "string"}, &spec.Field{Name: "qty", Number: 2, Kind: "int64"},
			&spec.Field{Name: "ok", Number: 3, Kind: "bool"})
		if x.has(FRepeated) {
			it.Fields = append(it.Fields, &spec.Field{Name: "tags", Number: 4, Kind: "string", Card: "repeated"})
		}
		if x.has(FRules) && x.r.chance(1, 2) {
			one := uint64(1)
			it.Fields[0].Rules = &spec.Rules{MinLen: &one}
		}
		x.f.Messages = append(x.f.Messages, it)
		other := &spec.Message{Name: "Other", Fields: []*spec.Field{{Name: "text", Number: 1, Kind: "string"}, {Name: "num", Number: 2, Kind: "int32"}}}
		if x.has(FOptional) {
			other.Fields = append(other.Fields, &spec.Field{Name: "memo", Number: 3, Kind: "string", Card: "optional"})
		}
		if x.has(FExamples) {
			it.Fields[0].Examples = []string{"widget", "gadget"}
			other.Fields[0].Examples = []string{"lorem", "ipsum", "dolor"}
		}
		x.f.Messages = append(x.f.Messages, other)
		// a message whose fields are all singular messages, two levels deep
		x.f.Messages = append(x.f.Messages,
			&spec.Message{Name: "Pair", Fields: []*spec.Field{{Name: "left", Number: 1, Kind: "message", TypeName: x.fq("Item")}, {Name: "right", Number: 2, Kind: "message", TypeName: x.fq("Other")}}},
			&spec.Message{Name: "Envelope", Fields: []*spec.Field{{Name: "pair", Number: 1, Kind: "message", TypeName: x.fq("Pair")}, {Name: "extra", Number: 2, Kind: "message", TypeName: x.fq("Pair")}}})
	}
	if x.has(FRecursive) {
		n := &spec.Message{Name: "Node", Fields: []*spec.Field{{Name: "name", Number: 1, Kind: "string"},
			{Name: "children", Number: 2, Kind: "message", TypeName: x.fq("Node"), Card: "repeated"},
			{Name: "next", Number: 3, Kind: "message", TypeName: x.fq("Node")}}}
		x.f.Messages = append(x.f.Messages, n)
	}
	x.annotatedTypes()
	if x.has(FCustomError) {
		e := &spec.Message{Name: "NotFoundError", Fields: []*spec.Field{{Name: "resource", Number: 1, Kind: "string"}, {Name: "code", Number: 2, Kind: "int32"},
			{Name: "hints", Number: 3, Kind: "string", Card: "repeated"}}}
		x.f.Messages = append(x.f.Messages, e)
	}
}

func (x *g) fieldName(taken map[string]bool) string {
	for {
		var n string
		if x.has(FNameShapes) && x.r.chance(1, 3) {
			n = pick(x.r, fieldWordsShaped)
		} else {
			n = pick(x.r, fieldWords)
		}
		if taken[n] {
			// not "<name>_<digit>": protoc-gen-go keeps that underscore ("Id_2") — probe worlds only
			n = fmt.Sprintf("%s_v%d", n, len(taken))
		}
		if !taken[n] && !goKeywordish(n) {
			taken[n] = true
			return n
		}
	}
}

func goKeywordish(n string) bool {
	switch n {
	case "reset", "string", "proto_message", "proto_reflect", "descriptor":
		return true
	}
	return false
}

func (x *g) scalarKind() string {
	if x.has(FAllKinds) {
		return pick(x.r, allKinds)
	}
	return pick(x.r, basicKinds)
}

// bodyField draws a field of the wide set.
func (x *g) bodyField(m *spec.Message, taken map[string]bool, num int32) *spec.Field {
	f := &spec.Field{Name: x.fieldName(taken), Number: num}
	type opt struct {
		feat string
		fn   func()
	}
	scalar := func() { f.Kind = x.scalarKind() }
	opts := []func(){scalar, scalar, scalar}
	if x.has(FBytes) {
		opts = append(opts, func() { f.Kind = "bytes" })
	}
	if x.has(FEnum) {
		opts = append(opts, func() { f.Kind = "enum"; f.TypeName = x.fq("Color") })
	}
	if x.has(FNested) {
		opts = append(opts, func() { f.Kind = "message"; f.TypeName = x.fq(pick(x.r, []string{"Item", "Item", "Envelope", "Pair"})) })
	}
	if x.has(FRecursive) {
		opts = append(opts, func() { f.Kind = "message"; f.TypeName = x.fq("Node") })
	}
	if x.has(FTimestamp) {
		opts = append(opts, func() { f.Kind = "message"; f.TypeName = ".google.protobuf.Timestamp" })
	}
	if len(x.annMsgs) > 0 {
		ann := func() { f.Kind = "message"; f.TypeName = x.fq(pick(x.r, x.annMsgs)) }
		opts = append(opts, ann, ann)
	}
	pick(x.r, opts)()
	// cardinality (annotated types stay singular: repeated / map-of-annotated combinations
	// hit generator compile errors that belong to the not-applicable property C13)
	isAnn := strings.Contains(f.TypeName, ".Ann")
	switch {
	case isAnn:
	case x.has(FRepeated) && x.r.chance(1, 4):
		f.Card = "repeated"
	case x.has(FMap) && x.r.chance(1, 5):
		f.Card = "map"
		f.MapKey = pick(x.r, mapKeyKinds)
		if f.Kind == "message" && f.TypeName == ".google.protobuf.Timestamp" && !(x.has(FMapWKT) && x.r2.chance(1, 2)) {
			f.TypeName = ""
			f.Kind = "string"
		}
	case x.has(FOptional) && x.r.chance(1, 4) && f.Kind != "message":
		f.Card = "optional"
	}
	if x.has(FRules) && x.r.chance(1, 4) {
		x.rules(f)
	}
	if x.has(FExamples) && f.Card == "" && x.r.chance(1, 3) {
		switch f.Kind {
		case "string":
			f.Examples = []string{"ex-a", "ex b", "é"}
			if x.r2.chance(1, 2) {
				f.Examples = []string{", ", "Re: ", "  indented", "\ttab"} // surrounding whitespace is part of the value
			}
		case "int32":
			f.Examples = pick(x.r, [][]string{{"1", "2", "3"}, {"-7"}, {"12", "not-a-number"}})
		case "int64":
			f.Examples = pick(x.r, [][]string{{"1", "2", "4294967296123"}, {"-9007199254740993"}, {"12", "not-a-number"}})
		case "bool":
			f.Examples = []string{"true", "false"}
		case "float", "double":
			f.Examples = pick(x.r, [][]string{{"1.5", "2.25"}, {"1e3", "x"}})
		}
	}
	return f
}

func (x *g) rules(f *spec.Field) {
	u := func(v uint64) *uint64 { return &v }
	i := func(v int64) *int64 { return &v }
	switch {
	case f.Card == "repeated":
		f.Rules = &spec.Rules{MaxItems: u(2)}
		if x.r.chance(1, 2) {
			f.Rules = &spec.Rules{MinItems: u(1)}
		}
	case f.Card == "map":
		f.Rules = &spec.Rules{MaxPairs: u(1)}
	case f.Card == "optional":
	case f.Kind == "string":
		switch x.r.intn(3) {
		case 0:
			f.Rules = &spec.Rules{MinLen: u(1)}
		case 1:
			f.Rules = &spec.Rules{MaxLen: u(5)}
		default:
			f.Rules = &spec.Rules{In: []string{"a", "x y", "é"}}
		}
	case f.Kind == "int32" || f.Kind == "int64":
		switch x.r.intn(3) {
		case 0:
			f.Rules = &spec.Rules{Gt: i(0)}
		case 1:
			f.Rules = &spec.Rules{Gte: i(-5), Lte: i(100)}
		default:
			f.Rules = &spec.Rules{Lt: i(1000)}
		}
	case f.Kind == "message" && f.TypeName != ".google.protobuf.Timestamp":
		f.Rules = &spec.Rules{Required: true}
	}
}

var headerTypes = []string{"", "string", "integer", "number", "boolean", "array"}
var headerFormats = []string{"", "", "uuid", "email", "date-time", "date", "time"}
var headerNames = []string{"X-API-Key", "X-Request-ID", "X-Tenant", "Authorization", "X-Trace-Id", "Accept-Language", "X-Count", "X-Flag"}

func (x *g) header(name string) *spec.Header {
	h := &spec.Header{Name: name, Required: x.r.chance(2, 3)}
	if x.has(FHeaderDeprecated) && x.r2.chance(1, 3) {
		h.Deprecated = true // deprecated headers are still enforced by the servers
	}
	h.Type = pick(x.r, headerTypes)
	if h.Type == "" || h.Type == "string" {
		h.Format = pick(x.r, headerFormats)
	}
	if x.r.chance(1, 3) {
		h.Description = "header " + name
	}
	return h
}

func (x *g) service(name string, idx int) {
	s := &spec.Service{Name: name}
	if x.has(FBasePath) {
		bp := pick(x.r, []string{"/api", "/api/", "/api/v1", "/v1/x-y", "/" + strings.ToLower(name)})
		if x.has(RBaseNoSlash) {
			bp = "api/v1"
		}
		s.BasePath = &bp
	} else if idx > 0 {
		// several services without base path: keep routes apart with a base path anyway
		bp := "/" + strings.ToLower(name)
		s.BasePath = &bp
	}
	usedHdr := map[string]bool{}
	if x.has(FHeadersSvc) {
		n := 1 + x.r.intn(2)
		for i := 0; i < n; i++ {
			hn := pick(x.r, headerNames)
			if usedHdr[strings.ToLower(hn)] {
				continue
			}
			usedHdr[strings.ToLower(hn)] = true
			s.Headers = append(s.Headers, x.header(hn))
		}
	}
	nM := 1 + x.r.intn(4)
	if nM < x.cfg.MinMethods {
		nM = x.cfg.MinMethods
	}
	if x.usedM == nil {
		x.usedM = map[string]bool{}
	}
	usedM := x.usedM
	if x.has(RSameMethodName) || x.has(FSharedMethodNames) {
		usedM = map[string]bool{} // method names may repeat across the services of the file
	}
	x.usedHdrM = map[string]bool{}
	for k := range usedHdr {
		x.usedHdrM[k] = true
	}
	usedRoutes := map[string]bool{}
	for i := 0; i < nM; i++ {
		var mn string
		for {
			if (x.has(FNameShapes) && x.r.chance(1, 2)) || x.has(RDefaultPath) || x.has(RVerbOnly) {
				mn = pick(x.r, methodNamesShaped)
			} else {
				mn = pick(x.r, methodNames)
			}
			if x.has(RSameMethodName) {
				mn = []string{"Get", "List", "Create", "Update"}[i%4]
			}
			if !usedM[mn] {
				usedM[mn] = true
				break
			}
		}
		x.method(s, mn, i, usedRoutes)
	}
	x.f.Services = append(x.f.Services, s)
}

func (x *g) method(s *spec.Service, name string, idx int, usedRoutes map[string]bool) {
	m := &spec.Method{Name: name}
	reqName := s.Name + name + "Request"
	respName := s.Name + name + "Response"
	req := &spec.Message{Name: reqName}
	resp := &spec.Message{Name: respName}
	taken := map[string]bool{}
	var num int32 = 1

	verbs := []string{"GET", "POST", "PUT", "DELETE", "PATCH", "POST"}
	verb := pick(x.r, verbs)
	m.HasConfig = true
	m.Verb = verb
	noCfg, verbOnly := x.has(RDefaultPath), x.has(RVerbOnly)
	if !noCfg && !verbOnly && x.has(FPartialConfig) {
		// some methods of the service leave the path to the generators' default
		switch x.r2.intn(5) {
		case 0:
			noCfg = true
		case 1:
			verbOnly = true
		}
		if noCfg || verbOnly {
			v := verb
			if noCfg {
				v = "POST"
			}
			def := "/" + x.goPkg + "/" + camelToSnake(name)
			if s.BasePath != nil && *s.BasePath != "" {
				def = spec.JoinPath(*s.BasePath, camelToSnake(name))
			}
			if x.conflicts(v, segsOf(def)) {
				noCfg, verbOnly = false, false
			} else {
				x.routes = append(x.routes, route{v, segsOf(def)})
			}
		}
	}
	switch {
	case noCfg:
		m.HasConfig = false
		m.Verb = ""
		verb = "POST"
	case verbOnly:
		m.Path = ""
	}
	bodyless := verb == "GET" || verb == "DELETE"

	// the same path template under another verb (GET/PUT/DELETE on /items/{id})
	var shared *sharedPath
	if (x.has(FSharedPath) || x.has(RSharedRenamed)) && m.HasConfig && !verbOnly && !noCfg && x.prevPath[s.Name] != nil && (x.has(RSharedRenamed) || x.r.chance(1, 2)) {
		sp := x.prevPath[s.Name]
		bpre := ""
		if s.BasePath != nil {
			bpre = *s.BasePath
		}
		for _, v := range []string{"PATCH", "PUT", "POST", "DELETE", "GET"} {
			if !sp.verbs[v] && !x.conflicts(v, segsOf(spec.JoinPath(bpre, sp.path))) {
				shared = sp
				verb, m.Verb = v, v
				sp.verbs[v] = true
				break
			}
		}
		bodyless = verb == "GET" || verb == "DELETE"
	}
	// path
	nVars := 0
	if x.has(FPathVars) && m.HasConfig && !verbOnly {
		nVars = x.r.intn(4)
	}
	if x.has(RSharedRenamed) && m.HasConfig && !verbOnly && nVars == 0 {
		nVars = 1
	}
	if shared != nil || x.has(FTrailingSlash) {
		nVars = 0
	}
	if x.has(RPathQueryTS) || x.has(RPathVarDigit) {
		nVars = 1
	}
	var segs []string
	base := strings.ToLower(name)
	var vars []string
	for i := 0; i < nVars; i++ {
		fn := x.fieldName(taken)
		if x.has(RPathVarDigit) {
			fn = fmt.Sprintf("id_%d", i+2)
			taken[fn] = true
		}
		k := pick(x.r, pathKinds)
		req.Fields = append(req.Fields, &spec.Field{Name: fn, Number: num, Kind: k})
		num++
		vars = append(vars, fn)
	}
	if x.has(FPathVarOrder) && len(vars) > 1 && x.r2.chance(1, 2) {
		// the path uses the variables in another order than the message declares them
		for i, j := 0, len(vars)-1; i < j; i, j = i+1, j-1 {
			vars[i], vars[j] = vars[j], vars[i]
		}
	}
	// layouts: variable first / middle / last / adjacent
	switch {
	case nVars == 0:
		segs = []string{base, fmt.Sprintf("r%d", idx)}
	case nVars == 1:
		switch x.r.intn(3) {
		case 0:
			segs = []string{"{" + vars[0] + "}", base}
		case 1:
			segs = []string{base, "{" + vars[0] + "}"}
		default:
			segs = []string{base, "{" + vars[0] + "}", "detail"}
		}
	default:
		segs = []string{base}
		for i, v := range vars {
			segs = append(segs, "{"+v+"}")
			if i < len(vars)-1 && x.r.chance(1, 2) {
				segs = append(segs, "sub")
			}
		}
	}
	if shared != nil {
		// the same path shape under another verb; sometimes with the variables named differently
		// (GET /items/{id} next to DELETE /items/{item_id}: one route shape, two templates)
		rename := len(shared.vars) > 0 && (x.has(RSharedRenamed) || x.r3.chance(1, 3))
		sp := shared.path
		for _, v := range shared.vars {
			cp := *v
			cp.Number = num
			num++
			if rename {
				old := cp.Name
				cp.Name = old + "_alt"
				sp = strings.ReplaceAll(sp, "{"+old+"}", "{"+cp.Name+"}")
			}
			taken[cp.Name] = true
			req.Fields = append(req.Fields, &cp)
			vars = append(vars, cp.Name)
		}
		nVars = len(vars)
		m.Path = sp
		bpth := ""
		if s.BasePath != nil {
			bpth = *s.BasePath
		}
		x.routes = append(x.routes, route{verb, segsOf(spec.JoinPath(bpth, m.Path))})
	} else if x.has(FTrailingSlash) && m.HasConfig {
		// full paths ending in "/": "<base>/<name>/" and, for the first method, "/" under the base path
		p := "/" + base + "/"
		if idx == 0 && s.BasePath != nil {
			p = "/"
		}
		bpre3 := ""
		if s.BasePath != nil {
			bpre3 = *s.BasePath
		}
		x.routes = append(x.routes, route{verb, segsOf(spec.JoinPath(bpre3, p))})
		m.Path = p
	} else if m.HasConfig && !verbOnly {
		p := strings.Join(segs, "/")
		if !x.has(RPathNoSlash) {
			p = "/" + p
		}
		// avoid ServeMux pattern conflicts (all services of a world share one mux)
		bp := ""
		if s.BasePath != nil {
			bp = *s.BasePath
		}
		full := func(p string) []string { return segsOf(spec.JoinPath(bp, p)) }
		if x.conflicts(verb, full(p)) {
			// fall back to a literal-first layout with a unique literal
			p = "/" + base + fmt.Sprintf("u%d", len(x.routes))
			for _, v := range vars {
				p += "/{" + v + "}"
			}
		}
		for x.conflicts(verb, full(p)) {
			p += "/z" // a longer template cannot overlap the shorter ones
		}
		x.routes = append(x.routes, route{verb, full(p)})
		m.Path = p
		if x.prevPath == nil {
			x.prevPath = map[string]*sharedPath{}
		}
		var pv []*spec.Field
		for _, vn := range vars {
			pv = append(pv, req.Field(vn))
		}
		x.prevPath[s.Name] = &sharedPath{path: p, vars: pv, verbs: map[string]bool{verb: true}}
	}

	// a path-bound field with an explicit json_name ([json_name = "kUserId"]): the property the
	// JSON contract and the TS types use is then not the lowerCamel form of the proto name
	for _, vn := range vars {
		if f := req.Field(vn); f != nil && f.JSONName == "" && x.r3.chance(1, 5) {
			f.JSONName = "k" + strings.ToUpper(vn[:1]) + strings.ReplaceAll(vn[1:], "_", "")
		}
	}

	// query
	wantQuery := x.has(FQuery) && (bodyless || x.has(FQueryOnBody))
	if x.cfg.TSSafe && bodyless && nVars > 0 {
		wantQuery = false // path variable + query parameter on a body-less route: TS server does not load
	}
	if x.has(RPathQueryTS) || x.has(RRepeatedQuery) || x.has(ROptionalQuery) {
		wantQuery = true
		if !bodyless {
			m.Verb = "GET"
			verb = "GET"
			bodyless = true
		}
	}
	if wantQuery {
		n := 1 + x.r.intn(4)
		for i := 0; i < n; i++ {
			fn := x.fieldName(taken)
			f := &spec.Field{Name: fn, Number: num, Kind: pick(x.r, pathKinds)}
			num++
			f.Query = &spec.Query{}
			switch x.r.intn(3) {
			case 0:
				f.Query.Name = fn
			case 1:
				f.Query.Name = strings.ReplaceAll(fn, "_", "-") + "_q"
			}
			if x.r.chance(1, 4) {
				f.Query.Required = true
			}
			if x.has(RRepeatedQuery) && i == 0 {
				f.Card = "repeated"
			}
			if x.has(ROptionalQuery) && i == 0 {
				f.Card = "optional"
			}
			if x.has(FQueryCard) && f.Card == "" && !f.Query.Required {
				switch x.r2.intn(4) {
				case 0:
					f.Card = "repeated"
				case 1:
					f.Card = "optional"
				}
			}
			req.Fields = append(req.Fields, f)
		}
	}
	// body
	if !bodyless {
		n := x.r.intn(6)
		for i := 0; i < n; i++ {
			req.Fields = append(req.Fields, x.bodyField(req, taken, num))
			num++
		}
		if x.has(FOneof) && x.r.chance(1, 2) {
			req.Oneofs = append(req.Oneofs, &spec.Oneof{Name: "choice"})
			req.Fields = append(req.Fields,
				&spec.Field{Name: x.fieldName(taken), Number: num, Kind: "string", Oneof: "choice"},
				&spec.Field{Name: x.fieldName(taken), Number: num + 1, Kind: "message", TypeName: x.fq("Item"), Oneof: "choice"},
				&spec.Field{Name: x.fieldName(taken), Number: num + 2, Kind: "int64", Oneof: "choice"})
			num += 3
		}
	}
	// response
	rt := map[string]bool{}
	var rn int32 = 1
	n := x.r.intn(6)
	for i := 0; i < n; i++ {
		if x.cfg.MockSafe {
			resp.Fields = append(resp.Fields, x.mockSafeField(rt, rn, 0))
		} else {
			resp.Fields = append(resp.Fields, x.bodyField(resp, rt, rn))
		}
		rn++
	}
	if x.has(FOneof) && x.r.chance(1, 3) && !x.cfg.MockSafe {
		resp.Oneofs = append(resp.Oneofs, &spec.Oneof{Name: "result"})
		resp.Fields = append(resp.Fields,
			&spec.Field{Name: x.fieldName(rt), Number: rn, Kind: "string", Oneof: "result"},
			&spec.Field{Name: x.fieldName(rt), Number: rn + 1, Kind: "message", TypeName: x.fq("Other"), Oneof: "result"})
		rn += 2
	}
	if x.cfg.Mock && x.has(FMapWKT) && idx == 0 {
		// a map whose values are messages of another Go package (well-known type)
		resp.Fields = append(resp.Fields, &spec.Field{Name: x.fieldName(rt), Number: rn, Kind: "message", TypeName: ".google.protobuf.Timestamp", Card: "map", MapKey: "string"})
		rn++
	}
	// always give the response one plain string field first-class (used by the KV oracle)
	if len(resp.Fields) == 0 || x.r.chance(1, 2) {
		resp.Fields = append(resp.Fields, &spec.Field{Name: x.fieldName(rt), Number: rn, Kind: "string"})
	}
	// method headers
	if x.has(FHeadersMeth) && x.r.chance(2, 3) {
		// the same header may be declared by several methods of a service (with the same
		// declaration, as an API author would); it must not clash with a service-level name
		hn := pick(x.r, headerNames)
		if x.svcHdr == nil {
			x.svcHdr = map[string]*spec.Header{}
		}
		if last := x.lastMethHdr[s.Name]; last != "" && x.r.chance(1, 2) {
			hn = last // several methods of a service typically share a method-level header
		}
		if x.lastMethHdr == nil {
			x.lastMethHdr = map[string]string{}
		}
		key := s.Name + "|" + strings.ToLower(hn)
		if prev := x.svcHdr[key]; prev != nil {
			cp := *prev
			if x.has(FMethHdrVariants) {
				// the same header name, declared differently by this method
				switch x.r2.intn(3) {
				case 0:
					cp.Required = !cp.Required
				case 1:
					cp.Type, cp.Format = "string", ""
					cp.Required = true
				}
			}
			m.Headers = append(m.Headers, &cp)
		} else if !x.usedHdrM[strings.ToLower(hn)] {
			h := x.header(hn)
			x.lastMethHdr[s.Name] = hn
			x.svcHdr[key] = h
			x.usedHdrM[strings.ToLower(hn)] = true
			m.Headers = append(m.Headers, h)
		}
	}
	if x.has(RDupMethodHeader) {
		m.Headers = append(m.Headers, &spec.Header{Name: "X-Idem-Key", Type: "string", Required: true})
	}
	if x.has(FHeaderOverride) && len(s.Headers) > 0 && idx == 0 {
		// same name as a service header, different case and different spec
		sh := s.Headers[0]
		dup := false
		for _, mh := range m.Headers {
			if strings.EqualFold(mh.Name, sh.Name) {
				dup = true
			}
		}
		if !dup {
			oh := x.header(swapCase(sh.Name))
			oh.Required = !x.has(ROptionalOverride)
			m.Headers = append(m.Headers, oh)
		}
	}
	m.In, m.Out = x.fq(reqName), x.fq(respName)
	x.f.Messages = append(x.f.Messages, req, resp)
	// a second method on the same request message with ANOTHER set of path variables
	// (e.g. POST /shelves/{shelf}/items and PUT /shelves/{shelf}/items/{id} both taking Item)
	if x.has(FSharedReq) && !bodyless && shared == nil && len(vars) >= 1 && !x.sharedReqDone[s.Name] && m.HasConfig && m.Path != "" {
		if x.sharedReqDone == nil {
			x.sharedReqDone = map[string]bool{}
		}
		x.sharedReqDone[s.Name] = true
		m2 := &spec.Method{Name: name + "Again", In: m.In, Out: m.Out, HasConfig: true, Verb: "PUT"}
		if verb == "PUT" {
			m2.Verb = "PATCH"
		}
		// drop the last path variable from the template (it then travels in the body)
		p2 := "/" + base + "again"
		for _, v := range vars[:len(vars)-1] {
			p2 += "/{" + v + "}"
		}
		bpre2 := ""
		if s.BasePath != nil {
			bpre2 = *s.BasePath
		}
		for x.conflicts(m2.Verb, segsOf(spec.JoinPath(bpre2, p2))) {
			p2 += "/z"
		}
		x.routes = append(x.routes, route{m2.Verb, segsOf(spec.JoinPath(bpre2, p2))})
		m2.Path = p2
		m2.Headers = m.Headers
		defer func() { s.Methods = append(s.Methods, m2) }()
	}
	if len(x.annMsgs) > 0 {
		// annotated type in top-level position (where the custom codec is what the server and client call)
		if x.r.chance(1, 3) && !x.cfg.MockSafe {
			m.Out = x.fq(pick(x.r, x.annMsgs))
		}
		if !bodyless && nVars == 0 && !wantQuery && x.r.chance(1, 4) {
			m.In = x.fq(pick(x.r, x.annMsgs))
		}
	}
	// a response message used by methods of several services (a common Status / Page type)
	if x.has(FSharedResp) {
		if x.sharedResp != "" && x.sharedRespSvc != s.Name && x.r2.chance(1, 2) {
			m.Out = x.sharedResp
		} else if x.sharedResp == "" {
			x.sharedResp, x.sharedRespSvc = m.Out, s.Name
		}
	}
	s.Methods = append(s.Methods, m)
}

func wildcard(p string) string {
	var out []string
	for _, s := range strings.Split(strings.Trim(p, "/"), "/") {
		if strings.HasPrefix(s, "{") {
			out = append(out, "*")
		} else {
			out = append(out, s)
		}
	}
	return strings.Join(out, "/")
}

func swapCase(s string) string {
	if s == strings.ToLower(s) {
		return strings.ToUpper(s)
	}
	return strings.ToLower(s)
}

func sp(s string) *string { return &s }
func bp(b bool) *bool     { return &b }

// annotatedTypes defines one dedicated message per JSON-mapping annotation feature
// (at most one annotation kind per message).
func (x *g) annotatedTypes() {
	add := func(m *spec.Message) {
		x.f.Messages = append(x.f.Messages, m)
		x.annMsgs = append(x.annMsgs, m.Name)
	}
	ts := ".google.protobuf.Timestamp"
	if x.has(FInt64Number) {
		add(&spec.Message{Name: "AnnInt64", Fields: []*spec.Field{
			{Name: "big", Number: 1, Kind: "int64", Int64Encoding: "NUMBER"},
			{Name: "ubig", Number: 2, Kind: "uint64", Int64Encoding: "NUMBER"},
			{Name: "plain", Number: 3, Kind: "int64"},
			{Name: "as_string", Number: 4, Kind: "int64", Int64Encoding: "STRING"},
			{Name: "note", Number: 5, Kind: "string"}}})
	}
	if x.has(FEnumValue) {
		add(&spec.Message{Name: "AnnEnum", Fields: []*spec.Field{
			{Name: "color", Number: 1, Kind: "enum", TypeName: x.fq("Color")},
			{Name: "colors", Number: 2, Kind: "enum", TypeName: x.fq("Color"), Card: "repeated"},
			{Name: "note", Number: 3, Kind: "string"}}})
	}
	if x.has(FEnumNumber) {
		add(&spec.Message{Name: "AnnEnumNum", Fields: []*spec.Field{
			{Name: "shade", Number: 1, Kind: "enum", TypeName: x.fq("Shade"), EnumEncoding: "NUMBER"},
			{Name: "plain_shade", Number: 2, Kind: "enum", TypeName: x.fq("Shade")},
			{Name: "note", Number: 3, Kind: "string"}}})
	}
	if x.has(FNullable) {
		add(&spec.Message{Name: "AnnNullable", Fields: []*spec.Field{
			{Name: "nick", Number: 1, Kind: "string", Card: "optional", Nullable: bp(true)},
			{Name: "age", Number: 2, Kind: "int32", Card: "optional", Nullable: bp(true)},
			{Name: "plain_opt", Number: 3, Kind: "bool", Card: "optional"},
			{Name: "note", Number: 4, Kind: "string"}}})
	}
	if x.has(FEmptyBehav) {
		add(&spec.Message{Name: "AnnEmpty", Fields: []*spec.Field{
			{Name: "as_null", Number: 1, Kind: "message", TypeName: x.fq("Other"), EmptyBehavior: "NULL"},
			{Name: "omitted", Number: 2, Kind: "message", TypeName: x.fq("Other"), EmptyBehavior: "OMIT"},
			{Name: "kept", Number: 3, Kind: "message", TypeName: x.fq("Other"), EmptyBehavior: "PRESERVE"},
			{Name: "note", Number: 4, Kind: "string"}}})
	}
	if x.has(FTsFormat) {
		add(&spec.Message{Name: "AnnTs", Fields: []*spec.Field{
			{Name: "secs", Number: 1, Kind: "message", TypeName: ts, TimestampFormat: "UNIX_SECONDS"},
			{Name: "millis", Number: 2, Kind: "message", TypeName: ts, TimestampFormat: "UNIX_MILLIS"},
			{Name: "day", Number: 3, Kind: "message", TypeName: ts, TimestampFormat: "DATE"},
			{Name: "rfc", Number: 4, Kind: "message", TypeName: ts, TimestampFormat: "RFC3339"},
			{Name: "plain_ts", Number: 5, Kind: "message", TypeName: ts},
			{Name: "note", Number: 6, Kind: "string"}}})
	}
	if x.has(FBytesEnc) {
		add(&spec.Message{Name: "AnnBytes", Fields: []*spec.Field{
			{Name: "hex", Number: 1, Kind: "bytes", BytesEncoding: "HEX"},
			{Name: "b64url", Number: 2, Kind: "bytes", BytesEncoding: "BASE64URL"},
			{Name: "b64raw", Number: 3, Kind: "bytes", BytesEncoding: "BASE64_RAW"},
			{Name: "b64urlraw", Number: 4, Kind: "bytes", BytesEncoding: "BASE64URL_RAW"},
			{Name: "b64", Number: 5, Kind: "bytes", BytesEncoding: "BASE64"},
			{Name: "plain_bytes", Number: 6, Kind: "bytes"},
			{Name: "note", Number: 7, Kind: "string"}}})
	}
	if x.has(FFlatten) {
		add(&spec.Message{Name: "AnnFlat", Fields: []*spec.Field{
			{Name: "id", Number: 1, Kind: "string"},
			{Name: "addr", Number: 2, Kind: "message", TypeName: x.fq("Other"), Flatten: true, FlattenPrefix: sp("addr_")},
			{Name: "bare", Number: 3, Kind: "message", TypeName: x.fq("Item"), Flatten: true}}})
	}
	if x.has(FOneofDisc) {
		add(&spec.Message{Name: "AnnDisc", Oneofs: []*spec.Oneof{{Name: "body", HasConfig: true, Discriminator: "type"}}, Fields: []*spec.Field{
			{Name: "id", Number: 1, Kind: "string"},
			{Name: "text_v", Number: 2, Kind: "message", TypeName: x.fq("Other"), Oneof: "body", OneofValue: sp("text")},
			{Name: "item_v", Number: 3, Kind: "message", TypeName: x.fq("Item"), Oneof: "body"}}})
		add(&spec.Message{Name: "AnnDiscFlat", Oneofs: []*spec.Oneof{{Name: "body", HasConfig: true, Discriminator: "kind", Flatten: true}}, Fields: []*spec.Field{
			{Name: "id", Number: 1, Kind: "string"},
			{Name: "text_v", Number: 2, Kind: "message", TypeName: x.fq("Other"), Oneof: "body", OneofValue: sp("text")},
			{Name: "item_v", Number: 3, Kind: "message", TypeName: x.fq("Item"), Oneof: "body", OneofValue: sp("item")}}})
	}
	if x.has(FOneofDisc) {
		add(&spec.Message{Name: "AnnDisc2", Oneofs: []*spec.Oneof{{Name: "geometry", HasConfig: true, Discriminator: "shape", Flatten: true}, {Name: "style", HasConfig: true, Discriminator: "look"}}, Fields: []*spec.Field{
			{Name: "id", Number: 1, Kind: "string"},
			{Name: "circle", Number: 2, Kind: "message", TypeName: x.fq("Other"), Oneof: "geometry", OneofValue: sp("circle")},
			{Name: "box", Number: 3, Kind: "message", TypeName: x.fq("Item"), Oneof: "geometry", OneofValue: sp("box")},
			{Name: "plain_style", Number: 4, Kind: "message", TypeName: x.fq("Other"), Oneof: "style"},
			{Name: "fancy_style", Number: 5, Kind: "message", TypeName: x.fq("Item"), Oneof: "style"}}})
	}
	if x.has(FUnwrap) {
		// map-value unwrap: a wrapper with one unwrapped repeated field, used as a map value
		x.f.Messages = append(x.f.Messages, &spec.Message{Name: "ItemList", Fields: []*spec.Field{
			{Name: "items", Number: 1, Kind: "message", TypeName: x.fq("Item"), Card: "repeated", Unwrap: true}}})
		add(&spec.Message{Name: "AnnUnwrapHolder", Fields: []*spec.Field{
			{Name: "groups", Number: 1, Kind: "message", TypeName: x.fq("ItemList"), Card: "map", MapKey: "string"},
			{Name: "note", Number: 2, Kind: "string"}}})
		// root unwrap: the whole message is the array / the map
		add(&spec.Message{Name: "AnnRootList", Fields: []*spec.Field{
			{Name: "items", Number: 1, Kind: "message", TypeName: x.fq("Item"), Card: "repeated", Unwrap: true}}})
		add(&spec.Message{Name: "AnnRootMap", Fields: []*spec.Field{
			{Name: "by_key", Number: 1, Kind: "message", TypeName: x.fq("Item"), Card: "map", MapKey: "string", Unwrap: true}}})
	}
	if x.cfg.AnnService && x.has(FUnwrap) && x.has(FEnumValue) {
		// two annotation kinds meeting in one message: the holder of an unwrap map is decoded field by
		// field through encoding/json, which is the only way the custom codec of an enum with
		// enum_value spellings is ever reached (protojson never calls it). Kept out of annMsgs so that
		// the draws of earlier worlds are unchanged.
		x.f.Messages = append(x.f.Messages, &spec.Message{Name: "AnnMixHolder", Fields: []*spec.Field{
			{Name: "colors", Number: 1, Kind: "enum", TypeName: x.fq("Color"), Card: "repeated"},
			{Name: "color", Number: 2, Kind: "enum", TypeName: x.fq("Color")},
			{Name: "groups", Number: 3, Kind: "message", TypeName: x.fq("ItemList"), Card: "map", MapKey: "string"},
			{Name: "note", Number: 4, Kind: "string"}}})
		x.annMix = append(x.annMix, "AnnMixHolder")
	}
}

// mockSafeField draws a response field of a shape the mock generator handles:
// singular string / int64 / bool / double (filled, optionally with examples),
// kinds it skips (enum, bytes, unsigned and s/fixed integers, any cardinality),
// singular nested messages of the same shapes, maps with scalar non-enum values.
func (x *g) mockSafeField(taken map[string]bool, num int32, depth int) *spec.Field {
	f := &spec.Field{Name: x.fieldName(taken), Number: num}
	switch x.r.intn(10) {
	case 0, 1, 2:
		f.Kind = "string"
	case 3:
		f.Kind = "int64"
	case 4:
		f.Kind = "bool"
	case 5:
		f.Kind = "double"
	case 6:
		f.Kind = pick(x.r, []string{"uint32", "uint64", "sint32", "fixed64", "bytes"})
		if x.r.chance(1, 3) {
			f.Card = "repeated"
		}
	case 7:
		if x.has(FEnum) {
			f.Kind, f.TypeName = "enum", x.fq("Color")
		} else {
			f.Kind = "string"
		}
	case 8:
		if x.has(FMap) {
			f.Kind, f.Card, f.MapKey = pick(x.r, []string{"string", "int64", "bool", "double"}), "map", pick(x.r, []string{"string", "int32", "int64", "bool"})
		} else {
			f.Kind = "int64"
		}
	case 9:
		if x.has(FNested) && depth == 0 {
			f.Kind, f.TypeName = "message", x.fq("MockLeaf")
			x.needMockLeaf()
		} else {
			f.Kind = "bool"
		}
	}
	if x.has(FExamples) && f.Card == "" && x.r.chance(1, 2) {
		switch f.Kind {
		case "string":
			f.Examples = pick(x.r, [][]string{{"alpha", "beta", "gamma"}, {"only"}, {"é", "x y", "a-b"}})
			if x.r2.chance(1, 3) {
				f.Examples = []string{" padded ", "Re: ", "trailing  "} // surrounding whitespace is part of the value
			}
		case "int64":
			f.Examples = pick(x.r, [][]string{{"1", "2", "4294967296123"}, {"-7", "-9007199254740993"}, {"9007199254740993", "0"}, {"12", "not-a-number"}})
		case "bool":
			f.Examples = pick(x.r, [][]string{{"true"}, {"false", "true"}, {"maybe", "true"}})
		case "double":
			f.Examples = pick(x.r, [][]string{{"1.5", "2.25"}, {"-0.5"}, {"1e3", "x"}})
		}
	}
	return f
}

func (x *g) needMockLeaf() {
	for _, m := range x.f.Messages {
		if m.Name == "MockLeaf" {
			return
		}
	}
	leaf := &spec.Message{Name: "MockLeaf", Fields: []*spec.Field{
		{Name: "title", Number: 1, Kind: "string"}, {Name: "amount", Number: 2, Kind: "int64"},
		{Name: "ratio", Number: 3, Kind: "double"}, {Name: "enabled", Number: 4, Kind: "bool"}, {Name: "raw", Number: 5, Kind: "bytes"}}}
	if x.has(FExamples) {
		leaf.Fields[0].Examples = []string{"leaf-a", "leaf-b"}
		leaf.Fields[1].Examples = []string{"100", "200", "300"}
	}
	x.f.Messages = append(x.f.Messages, leaf)
}

// camelToSnake is the documented default-path spelling of a method name (GetUser -> get_user).
func camelToSnake(n string) string {
	var b []byte
	for i := 0; i < len(n); i++ {
		c := n[i]
		if c >= 'A' && c <= 'Z' {
			if i > 0 {
				b = append(b, '_')
			}
			b = append(b, c+'a'-'A')
		} else {
			b = append(b, c)
		}
	}
	return string(b)
}
