module verif/harness

go 1.26

require (
	github.com/SebastienMelki/sebuf v0.0.0
	google.golang.org/protobuf v1.36.11
	verif/simrt v0.0.0
	buf.build/gen/go/bufbuild/protovalidate/protocolbuffers/go v1.36.11-20260209202127-80ab13bee0bf.1
)

replace github.com/SebastienMelki/sebuf => /repo

replace verif/simrt => ../simrt
