module verif/harness

go 1.26.0

require (
	buf.build/gen/go/bufbuild/protovalidate/protocolbuffers/go v1.36.11-20260209202127-80ab13bee0bf.1
	github.com/SebastienMelki/sebuf v0.0.0
	golang.org/x/tools v0.50.0
	google.golang.org/protobuf v1.36.11
	verif/simrt v0.0.0
)

require (
	golang.org/x/mod v0.41.0 // indirect
	golang.org/x/sync v0.23.0 // indirect
)

replace github.com/SebastienMelki/sebuf => /repo

replace verif/simrt => ../simrt
