package main

import (
	"encoding/json"
	"fmt"
	"os"
	"path/filepath"
	"sort"
	"strings"
	"time"

	"verif/harness/gen"
	"verif/harness/world"
	"verif/simrt/spec"
)

type knownFinding struct {
	Property  string `json:"property"`
	Signature string `json:"signature"`
	What      string `json:"what"`
	Replay    string `json:"replay,omitempty"` // path relative to /verif
}

type knownFile struct {
	Findings []*knownFinding `json:"findings"`
	Fixed    []string        `json:"fixed"`
}

func loadKnown() *knownFile {
	kf := &knownFile{}
	b, err := os.ReadFile(filepath.Join(world.VerifDir, "known_findings.json"))
	if err != nil {
		return kf
	}
	if err := json.Unmarshal(b, kf); err != nil {
		fmt.Fprintf(os.Stderr, "verif: known_findings.json unreadable: %v\n", err)
		os.Exit(2)
	}
	return kf
}

type replayFile struct {
	Property  string          `json:"property"`
	Seed      int64           `json:"seed"`
	Spec      json.RawMessage `json:"spec"`
	Plan      json.RawMessage `json:"plan"`
	Class     string          `json:"class"`
	Signature string          `json:"signature"`
	Detail    string          `json:"detail"`
	Boot      string          `json:"boot"`
	LogHash   string          `json:"log_hash"`
	RepoTree  string          `json:"repo_tree"`
	Gen       json.RawMessage `json:"gen,omitempty"`
	Explore   *exploreReplay  `json:"explore,omitempty"`
}

// exploreReplay: the violation needs the sequence of plans of one runner process (state in
// the generated code survives between plans); replay = the same exploration again.
type exploreReplay struct {
	Mode      string `json:"mode"`
	Checks    int    `json:"checks"`
	RapidSeed uint64 `json:"rapid_seed"`
}

func addExploreToReplay(path, mode string, checks int, rseed uint64) error {
	b, err := os.ReadFile(path)
	if err != nil {
		return err
	}
	var m map[string]any
	if err := json.Unmarshal(b, &m); err != nil {
		return err
	}
	m["explore"] = exploreReplay{Mode: mode, Checks: checks, RapidSeed: rseed}
	m["detail"] = fmt.Sprint(m["detail"]) + " [needs the preceding plans of the same runner process: replayed as the whole seeded exploration]"
	out, _ := json.MarshalIndent(m, "", " ")
	return os.WriteFile(path, out, 0o644)
}

func loadReplay(path string) (*replayFile, *spec.World, error) {
	b, err := os.ReadFile(path)
	if err != nil {
		return nil, nil, err
	}
	rf := &replayFile{}
	if err := json.Unmarshal(b, rf); err != nil {
		return nil, nil, err
	}
	w := &spec.World{}
	if len(rf.Spec) > 0 {
		if err := json.Unmarshal(rf.Spec, w); err != nil {
			return nil, nil, err
		}
	}
	return rf, w, nil
}

func fail2(format string, args ...any) int {
	fmt.Fprintf(os.Stderr, "verif: HARNESS ERROR: "+format+"\n", args...)
	return 2
}

func runCheck(id, tier string, seed int64) int {
	if tier != "quick" && tier != "thorough" {
		return fail2("unknown tier %q", tier)
	}
	pc, err := getProp(id)
	if err != nil {
		return fail2("%v", err)
	}
	if pc.custom != nil {
		return pc.custom(pc, tier, seed)
	}
	t0 := time.Now()
	fmt.Printf("VERIF_SEED=%d property=%s tier=%s repo=%s\n", seed, id, tier, repoTreeHash())
	tc := pc.tier(tier)

	kf := loadKnown()
	var known []*knownFinding
	var knownSigs []string
	for _, f := range kf.Findings {
		if f.Property == id {
			known = append(known, f)
			knownSigs = append(knownSigs, f.Signature)
		}
	}
	reproduced := map[string]bool{}

	worlds := pc.worldsFor(seed, tier)
	// worlds of known findings (replayed first)
	type knownReplay struct {
		f    *knownFinding
		rf   *replayFile
		w    *spec.World
		plan string
	}
	var kreplays []*knownReplay
	names := map[string]bool{}
	for _, w := range worlds {
		names[w.Name] = true
	}
	for i, f := range known {
		if f.Replay == "" {
			continue
		}
		rf, w, err := loadReplay(filepath.Join(world.VerifDir, f.Replay))
		if err != nil {
			return fail2("known finding replay %s: %v", f.Replay, err)
		}
		if w.Name == "" {
			continue
		}
		// rename to avoid clashes with this run's worlds
		if names[w.Name] {
			// identical spec? then reuse; otherwise rename
			same := false
			for _, x := range worlds {
				if x.Name == w.Name && world.SpecJSON(x) == world.SpecJSON(w) {
					same = true
				}
			}
			if !same {
				renameWorld(w, fmt.Sprintf("k%d%s", i, w.Name))
				worlds = append(worlds, w)
				names[w.Name] = true
			}
		} else {
			worlds = append(worlds, w)
			names[w.Name] = true
		}
		kreplays = append(kreplays, &knownReplay{f: f, rf: rf, w: w})
	}

	// regression inputs: replays of defects that were repaired in /repo (known_findings.json
	// "fixed:" entries). They suppress nothing: if one of them fails again, it is a violation.
	type fixedReplay struct {
		path string
		rf   *replayFile
		w    *spec.World
	}
	var freplays []*fixedReplay
	if fixedFiles, _ := filepath.Glob(filepath.Join(world.VerifDir, "replays", "fixed", id+"-*.json")); len(fixedFiles) > 0 {
		sort.Strings(fixedFiles)
		for i, fp := range fixedFiles {
			rf, w, err := loadReplay(fp)
			if err != nil || w.Name == "" {
				continue
			}
			renameWorld(w, fmt.Sprintf("f%d%s", i, w.Name))
			worlds = append(worlds, w)
			freplays = append(freplays, &fixedReplay{path: fp, rf: rf, w: w})
		}
	}

	scratch, err := os.MkdirTemp("", "verif-check-")
	if err != nil {
		return fail2("%v", err)
	}
	defer os.RemoveAll(scratch)
	plugins, err := world.BuildPlugins(world.RepoDir, filepath.Join(scratch, "bin"))
	if err != nil {
		// the repository does not build: nothing can be checked
		return fail2("%v", err)
	}

	a := newAgg()
	var found []*foundViolation
	seenSig := map[string]bool{}
	isKnown := func(sig string) bool {
		for _, s := range knownSigs {
			if s == sig {
				return true
			}
		}
		return false
	}

	bs := tc.batchSize
	if bs <= 0 {
		bs = 16
	}
	harness := 0
	for start := 0; start < len(worlds); start += bs {
		if len(found) > 0 && os.Getenv("VERIF_STOP_AFTER_FIRST") != "" {
			break // development aid: the verdict is already known, skip the remaining batches
		}
		end := start + bs
		if end > len(worlds) {
			end = len(worlds)
		}
		part := worlds[start:end]
		b, err := world.NewBatch(part, world.Options{Plugins: plugins, Passes: pc.passes, SkipTS: !pc.needTS, Jobs: 16})
		if err != nil {
			if b != nil {
				b.Close()
			}
			return fail2("batch %d: %v", start/bs, err)
		}
		if pc.needTS {
			world.AdmitTS(b)
		}
		var jobs []*job
		for _, bw := range b.Worlds {
			a.worldsBuilt++
			switch {
			case bw.Refused != "":
				a.worldsRefused++
				fmt.Printf("world %s refused: %s\n", bw.Spec.Name, truncate(bw.Refused, 300))
				continue
			case bw.BootErr != "":
				a.bootFailures++
				sig := bootSignature(id, bw.Spec, bw.BootErr)
				if isKnown(sig) {
					reproduced[sig] = true
					a.knownHits[sig]++
					continue
				}
				if !seenSig[sig] {
					seenSig[sig] = true
					path, _ := writeReplay(id, seed, bw.Spec, nil, bw.BootErr)
					for _, fr := range freplays {
						if fr.w == bw.Spec {
							path = fr.path // a repaired boot failure is back
						}
					}
					found = append(found, &foundViolation{sig: sig, class: "boot", detail: bw.BootErr, replay: path})
				}
				continue
			}
			a.worldsBooted++
			a.shapes[strings.Join(bw.Spec.Features, ",")] = true
			for mi, mode := range pc.modes {
				if mode == "coldstart" {
					// one short-lived runner process per route (rotating window when the world has
					// more routes than the tier allows): every plan of it is among the first
					// requests that process ever serves
					n := 0
					for _, f := range bw.Spec.Files {
						for _, s := range f.Services {
							n += len(s.Methods)
						}
					}
					first := int(gen.Mix(uint64(seed), uint64(a.worldsBooted)) % uint64(maxInt(n, 1)))
					for ci := 0; ci < n && ci < tc.cold; ci++ {
						ri := (first + ci) % n
						jobs = append(jobs, &job{world: bw, mode: fmt.Sprintf("coldstart#%d", ri), checks: tc.coldChk,
							rseed: gen.Mix(uint64(seed), uint64(ri)*7919+uint64(start)*977+uint64(a.worldsBooted))%1000000007 + 1,
							out:   filepath.Join(scratch, fmt.Sprintf("res-%s-cold%d.json", bw.Spec.Name, ri))})
					}
					continue
				}
				if strings.HasPrefix(mode, "ts-") && bw.Spec.NoTS {
					continue
				}
				jobs = append(jobs, &job{world: bw, mode: mode, checks: tc.checks,
					rseed: gen.Mix(uint64(seed), uint64(len(jobs))*31+uint64(mi)+uint64(start)*977)%1000000007 + 1,
					out:   filepath.Join(scratch, fmt.Sprintf("res-%s-%s.json", bw.Spec.Name, mode))})
			}
		}
		// replays of known findings living in this batch
		var rjobs []*job
		for _, kr := range kreplays {
			if len(kr.rf.Plan) == 0 || string(kr.rf.Plan) == "null" {
				continue
			}
			for _, bw := range b.Worlds {
				if bw.Spec == kr.w && bw.Refused == "" && bw.BootErr == "" {
					pf := filepath.Join(scratch, "kplan-"+bw.Spec.Name+".json")
					_ = os.WriteFile(pf, fixPlanWorld(kr.rf.Plan, bw.Spec.Name), 0o644)
					mode := planMode(kr.rf.Plan)
					rjobs = append(rjobs, &job{world: bw, mode: mode, plan: pf, out: filepath.Join(scratch, "kres-"+bw.Spec.Name+".json")})
				}
			}
		}
		// replays of repaired defects living in this batch
		var fjobs []*job
		fjobOf := map[*job]*fixedReplay{}
		for _, fr := range freplays {
			if len(fr.rf.Plan) == 0 || string(fr.rf.Plan) == "null" {
				continue
			}
			for _, bw := range b.Worlds {
				if bw.Spec == fr.w && bw.Refused == "" && bw.BootErr == "" {
					pf := filepath.Join(scratch, "fplan-"+bw.Spec.Name+".json")
					_ = os.WriteFile(pf, fixPlanWorld(fr.rf.Plan, bw.Spec.Name), 0o644)
					j := &job{world: bw, mode: planMode(fr.rf.Plan), plan: pf, out: filepath.Join(scratch, "fres-"+bw.Spec.Name+".json")}
					fjobs = append(fjobs, j)
					fjobOf[j] = fr
				}
			}
		}
		extra := append(pc.extraEnv(b), tc.env...)
		timeout := time.Duration(tc.timeoutS) * time.Second
		runJobs(b, id, append(append(rjobs, fjobs...), jobs...), knownSigs, extra, 16, timeout)
		for _, j := range fjobs {
			a.fixedReplayed++
			if j.res == nil {
				continue
			}
			for _, v := range j.res.Violations {
				if !seenSig[v.Signature] && !isKnown(v.Signature) {
					seenSig[v.Signature] = true
					found = append(found, &foundViolation{sig: v.Signature, class: v.Class, detail: "a defect recorded as fixed fails again: " + v.Detail, replay: fjobOf[j].path})
				}
			}
		}
		for _, j := range rjobs {
			if j.res != nil {
				for _, v := range j.res.Violations {
					if isKnown(v.Signature) {
						reproduced[v.Signature] = true
					}
				}
			}
		}
		for _, j := range jobs {
			if j.err != "" {
				fmt.Fprintf(os.Stderr, "runner %s/%s: %s\n", j.world.Spec.Name, j.mode, j.err)
				harness++
				continue
			}
			a.add(j.res)
			for sig := range j.res.KnownHits {
				reproduced[sig] = true
			}
			for _, v := range j.res.Violations {
				if isKnown(v.Signature) {
					reproduced[v.Signature] = true
					continue
				}
				if seenSig[v.Signature] {
					continue
				}
				seenSig[v.Signature] = true
				path, werr := writeReplay(id, seed, j.world.Spec, v, "")
				if werr != nil {
					return fail2("writing replay: %v", werr)
				}
				// replay the minimised plan in a fresh process: it must fail the same way
				pf := filepath.Join(scratch, "vplan.json")
				_ = os.WriteFile(pf, v.Plan, 0o644)
				rj := &job{world: j.world, mode: j.mode, plan: pf, out: filepath.Join(scratch, "vres.json")}
				runJob(b, id, rj, nil, extra, timeout)
				confirmed := false
				if rj.res != nil {
					for _, rv := range rj.res.Violations {
						if rv.Signature == v.Signature {
							confirmed = true
						}
					}
				}
				if !confirmed {
					// The minimised plan alone does not fail in a fresh process: the violation depends
					// on process state left by earlier plans of the same runner (e.g. a pool or cache
					// in the generated code). The exploration itself is a pure function of (world,
					// mode, rapid seed, checks): re-run it in a fresh process; if it reports the same
					// violation, the replay file records the exploration instead of a single plan.
					ej := &job{world: j.world, mode: j.mode, checks: j.checks, rseed: j.rseed, out: filepath.Join(scratch, "eres.json")}
					runJob(b, id, ej, knownSigs, extra, timeout)
					if ej.res != nil {
						for _, rv := range ej.res.Violations {
							if rv.Signature == v.Signature {
								confirmed = true
							}
						}
					}
					if confirmed {
						if err := addExploreToReplay(path, j.mode, j.checks, j.rseed); err != nil {
							return fail2("%v", err)
						}
					}
				}
				if !confirmed {
					fmt.Fprintf(os.Stderr, "verif: violation %s did not reproduce on fresh-process replay (%s); treating as harness trouble\n", v.Signature, path)
					harness++
					continue
				}
				found = append(found, &foundViolation{sig: v.Signature, class: v.Class, detail: v.Detail, replay: path})
			}
			if len(j.res.HarnessErrors) > 0 {
				harness++
				fmt.Fprintf(os.Stderr, "runner %s/%s harness errors: %s\n", j.world.Spec.Name, j.mode, truncate(strings.Join(j.res.HarnessErrors, "; "), 1500))
			}
		}
		b.Close()
	}

	wall := time.Since(t0).Seconds()
	for _, f := range known {
		if reproduced[f.Signature] {
			fmt.Printf("KNOWN-FINDING: property=%s %s\n", id, f.What)
		} else {
			fmt.Printf("known finding not reproduced in this run (not an alarm): property=%s %s\n", id, f.What)
		}
	}
	sort.Slice(found, func(i, j int) bool { return found[i].sig < found[j].sig })
	for _, v := range found {
		fmt.Printf("VIOLATION property=%s replay=%s\n", id, v.replay)
		fmt.Printf("  class=%s signature=%s\n  %s\n", v.class, v.sig, truncate(v.detail, 1200))
	}
	if err := writeEvidence(pc, tier, seed, a, len(found), wall, known, reproduced); err != nil {
		return fail2("writing evidence: %v", err)
	}
	fmt.Printf("summary property=%s tier=%s worlds built=%d booted=%d refused=%d boot_failures=%d runs=%d runs/hour=%.0f sim_time=%.1fs interleavings=%d fixed_defect_replays=%d violations=%d wall=%.1fs\n",
		id, tier, a.worldsBuilt, a.worldsBooted, a.worldsRefused, a.bootFailures, a.runs, float64(a.runs)/wall*3600, float64(a.simUs)/1e6, a.interleavings, a.fixedReplayed, len(found), wall)
	if len(found) > 0 {
		return 1
	}
	if harness > 0 {
		return fail2("%d runner processes had harness trouble", harness)
	}
	if a.worldsBooted == 0 {
		return fail2("no world booted (refused=%d)", a.worldsRefused)
	}
	return 0
}

func renameWorld(w *spec.World, newName string) {
	old := w.Name
	b, _ := json.Marshal(w)
	s := strings.ReplaceAll(string(b), old, newName)
	*w = spec.World{}
	_ = json.Unmarshal([]byte(s), w)
}

func fixPlanWorld(plan json.RawMessage, name string) []byte {
	var m map[string]any
	if err := json.Unmarshal(plan, &m); err != nil {
		return plan
	}
	m["world"] = name
	b, _ := json.Marshal(m)
	return b
}

func planMode(plan json.RawMessage) string {
	var m struct {
		Mode string `json:"mode"`
	}
	_ = json.Unmarshal(plan, &m)
	return m.Mode
}

func (p *propCfg) extraEnv(b *world.Batch) []string {
	var env []string
	if p.needTS {
		env = append(env, "VERIF_NODE="+world.NodeBin(), "VERIF_BRIDGE="+filepath.Join(world.VerifDir, "node", "bridge.mjs"))
	}
	return env
}

func writeEvidence(pc *propCfg, tier string, seed int64, a *agg, nviol int, wall float64, known []*knownFinding, reproduced map[string]bool) error {
	dir := filepath.Join(world.VerifDir, "evidence")
	if err := os.MkdirAll(dir, 0o755); err != nil {
		return err
	}
	nontrivial := len(a.tuples)
	samples := []any{}
	for _, s := range a.samples {
		samples = append(samples, s)
	}
	if len(samples) == 0 {
		samples = append(samples, "no plan was executed")
	}
	var kl []string
	for _, f := range known {
		kl = append(kl, fmt.Sprintf("%s reproduced=%v", f.Signature, reproduced[f.Signature]))
	}
	real := append(append([]string{}, commonReal...), pc.real...)
	stubs := append(append([]string{}, commonStubs...), pc.stubs...)
	ev := map[string]any{
		"property_id": pc.id,
		"tier":        tier,
		"seed":        seed,
		"level":       pc.level,
		"wall_s":      wall,
		"violations":  nviol,
		"coverage": map[string]any{
			"evaluations":         maxInt(a.runs, 1),
			"distinct_nontrivial": nontrivial,
			"rule":                pc.rule,
			"samples":             samples,
			"simulated_runs":      a.runs,
			"runs_per_hour":       float64(a.runs) / wall * 3600,
			"runner_processes":    a.procs,
			"simulated_time_s":    float64(a.simUs) / 1e6,
			"kernel_steps":        a.steps,
			"faults_fired":        a.faults,
			"probes":              a.probes,
			"distinct_interleavings": a.interleavings,
			"interleaving_measure":   "per runner process: distinct hashes of the sequence of kernel events (event kind, call index, direction / yield site) actually executed in a run; summed over processes",
			"worlds_built":           a.worldsBuilt,
			"worlds_booted":          a.worldsBooted,
			"worlds_refused":         a.worldsRefused,
			"boot_failures":          a.bootFailures,
			"distinct_world_shapes":  len(a.shapes),
			"step_cap_runs":          a.stepCaps,
			"known_findings":         kl,
			"known_hits":             a.knownHits,
			"fixed_defect_replays":   a.fixedReplayed,
			"real_components":        real,
			"stub_components":        stubs,
			"repo_tree":              repoTreeHash(),
		},
		"assumptions": append([]string{
			"protovalidate is a stub interpreting a subset of buf.validate rules; CEL rules are not modelled",
			"TCP, connection reuse and HTTP/2 are outside the simulator; net/http message codecs are inside",
			"seeded search samples schedules, faults and schemas: a clean run is evidence, not proof",
		}, pc.assumptions...),
	}
	b, err := json.MarshalIndent(ev, "", " ")
	if err != nil {
		return err
	}
	return os.WriteFile(filepath.Join(dir, pc.id+".json"), b, 0o644)
}

func maxInt(a, b int) int {
	if a > b {
		return a
	}
	return b
}

func printWorlds(id, tier string, seed int64) int {
	pc, err := getProp(id)
	if err != nil {
		return fail2("%v", err)
	}
	for _, w := range pc.worldsFor(seed, tier) {
		b, _ := json.Marshal(w)
		fmt.Println(string(b))
	}
	return 0
}
