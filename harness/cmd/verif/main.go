// Command verif is the driver: `verif check <ID> <quick|thorough>`, `verif replay <file>`,
// `verif selftest determinism`.
package main

import (
	"fmt"
	"os"
	"strconv"

	"verif/harness/world"
)

func usage() {
	fmt.Fprintln(os.Stderr, `usage:
  verif check <property> <quick|thorough>
  verif replay <replay.json>
  verif selftest determinism [property]
  verif worlds <property> <quick|thorough>      (print world specs, no build)`)
	os.Exit(2)
}

func seedFromEnv() int64 {
	if v := os.Getenv("VERIF_SEED"); v != "" {
		if n, err := strconv.ParseInt(v, 10, 64); err == nil {
			return n
		}
	}
	return 1
}

func main() {
	// go/packages runs "go" from PATH: make that the 1.26.8 toolchain
	os.Setenv("PATH", "/opt/veriftools/go1.26.8/bin:"+os.Getenv("PATH"))
	if len(os.Args) < 2 {
		usage()
	}
	exit := func(code int, cleanup func()) {
		cleanup()
		os.Exit(code)
	}
	switch os.Args[1] {
	case "check":
		if len(os.Args) < 4 {
			usage()
		}
		cleanup := world.PrepareCache()
		exit(runCheck(os.Args[2], os.Args[3], seedFromEnv()), cleanup)
	case "replay":
		if len(os.Args) < 3 {
			usage()
		}
		cleanup := world.PrepareCache()
		exit(runReplay(os.Args[2]), cleanup)
	case "selftest":
		if len(os.Args) < 3 {
			usage()
		}
		prop := "C01"
		if len(os.Args) > 3 {
			prop = os.Args[3]
		}
		cleanup := world.PrepareCache()
		exit(runSelftest(os.Args[2], prop, seedFromEnv()), cleanup)
	case "worlds":
		if len(os.Args) < 4 {
			usage()
		}
		os.Exit(printWorlds(os.Args[2], os.Args[3], seedFromEnv()))
	default:
		usage()
	}
}
