package main

import (
	"crypto/sha256"
	"encoding/hex"
	"encoding/json"
	"fmt"
	"os"
	"path/filepath"
	"sort"
	"strings"
	"sync"
	"time"

	"google.golang.org/protobuf/proto"
	"google.golang.org/protobuf/types/descriptorpb"
	"google.golang.org/protobuf/types/pluginpb"

	"verif/harness/gen"
	"verif/harness/world"
	"verif/simrt/spec"
)

// C15: generation is a pure, order-independent function of the definitions.
// System under simulation: the real plugin binaries plus a second set built from a
// scratch copy of /repo in which every range-over-map (and time.Now) goes through a
// seam driven by VERIF_MAPSEED / VERIF_CLOCK.

type pluginCfg struct {
	name  string // binary
	param string
	label string
}

var c15Plugins = []pluginCfg{
	{"protoc-gen-go-http", "", "go-http"},
	{"protoc-gen-go-http", "generate_mock=true", "go-http+mock"},
	{"protoc-gen-go-client", "", "go-client"},
	{"protoc-gen-openapiv3", "", "openapi-yaml"},
	{"protoc-gen-openapiv3", "format=json", "openapi-json"},
	{"protoc-gen-ts-client", "", "ts-client"},
	{"protoc-gen-ts-server", "", "ts-server"},
}

type genVariant struct {
	Plugin   string   `json:"plugin"`
	Param    string   `json:"param"`
	Kind     string   `json:"kind"` // rerun | mapseed | clock | permute-generate | permute-protofile | single-file | alone | extra-file | param-spelling | mock-added
	Seamed   bool     `json:"seamed"`
	MapSeed  uint64   `json:"map_seed"`
	MapSite  string   `json:"map_site,omitempty"`
	Clock    int64    `json:"clock,omitempty"`
	Procs    int      `json:"gomaxprocs,omitempty"`
	Generate []string `json:"generate"` // file_to_generate
	Drop     []string `json:"drop,omitempty"`
	Extra    bool     `json:"extra,omitempty"`
	Swap     bool     `json:"swap_protofile,omitempty"`
	File     string   `json:"file,omitempty"` // differing output file
}

type c15Finding struct {
	sig     string
	detail  string
	variant genVariant
	world   *spec.World
}

func c15Worlds(seed int64, n int) []*spec.World {
	var out []*spec.World
	for i := 0; i < n; i++ {
		name := fmt.Sprintf("wc15%03d", i)
		allow := safeAllow(gen.AnnotationFeatures...)
		allow[gen.FExamples] = true
		a := gen.World(gen.Config{Seed: gen.Mix(uint64(seed), uint64(i)*2+15001), Name: name, Allow: allow, Mock: true})
		b := gen.World(gen.Config{Seed: gen.Mix(uint64(seed), uint64(i)*2+15002), Name: name + "b", Allow: allow, AltNames: true, Mock: true})
		// second file of the same world: unrelated package, different service names
		fb := b.Files[0]
		fb.Path = name + "/other.proto"
		fb.GoPackage = "verifworld/" + name + "/pbb;pbb"
		a.Files = append(a.Files, fb)
		a.Features = append(a.Features, "two_files")
		out = append(out, a)
	}
	for i := 0; i < 1+n/6; i++ {
		out = append(out, depWorld(gen.Mix(uint64(seed), uint64(i)+15900), fmt.Sprintf("wc15d%02d", i)))
	}
	return out
}

// depWorld is the second world family: three files of ONE proto and Go package - common
// types (an unwrap wrapper, a flattened discriminated oneof, plain messages) and two
// service files that import them. Generating a service file alone (the others only
// present as dependencies) must give the same bytes as generating everything together.
func depWorld(seed uint64, name string) *spec.World {
	pkg := name + ".v1"
	gp := "verifworld/" + name + "/pb;pb"
	fq := func(n string) string { return "." + pkg + "." + n }
	sp := func(s string) *string { return &s }
	types := &spec.File{Path: name + "/types.proto", Package: pkg, GoPackage: gp, Messages: []*spec.Message{
		{Name: "Item", Fields: []*spec.Field{{Name: "label", Number: 1, Kind: "string"}, {Name: "qty", Number: 2, Kind: "int64"}}},
		{Name: "Note", Fields: []*spec.Field{{Name: "text", Number: 1, Kind: "string"}}},
		{Name: "ItemList", Fields: []*spec.Field{{Name: "items", Number: 1, Kind: "message", TypeName: fq("Item"), Card: "repeated", Unwrap: true}}},
		{Name: "Event", Oneofs: []*spec.Oneof{{Name: "body", HasConfig: true, Discriminator: "kind", Flatten: true}}, Fields: []*spec.Field{
			{Name: "id", Number: 1, Kind: "string"},
			{Name: "note_v", Number: 2, Kind: "message", TypeName: fq("Note"), Oneof: "body", OneofValue: sp("text/plain")},
			{Name: "item_v", Number: 3, Kind: "message", TypeName: fq("Item"), Oneof: "body", OneofValue: sp("item")}}},
		{Name: "Big", Fields: []*spec.Field{{Name: "n", Number: 1, Kind: "int64", Int64Encoding: "NUMBER"}}},
	}}
	mk := func(file, svc, base string, verbs []string) *spec.File {
		f := &spec.File{Path: name + "/" + file, Package: pkg, GoPackage: gp, Imports: []string{name + "/types.proto"}}
		s := &spec.Service{Name: svc, BasePath: sp(base), Headers: []*spec.Header{{Name: "X-Api-Key", Required: true}, {Name: "X-Trace", Required: seed%2 == 0}}}
		for i, v := range verbs {
			mn := []string{"Sync", "Load", "Store"}[i%3]
			req := &spec.Message{Name: svc + mn + "Request", Fields: []*spec.Field{
				{Name: "by_account", Number: 1, Kind: "message", TypeName: fq("ItemList"), Card: "map", MapKey: "string"},
				{Name: "event", Number: 2, Kind: "message", TypeName: fq("Event")},
				{Name: "big", Number: 3, Kind: "message", TypeName: fq("Big")}}}
			resp := &spec.Message{Name: svc + mn + "Response", Fields: []*spec.Field{
				{Name: "event", Number: 1, Kind: "message", TypeName: fq("Event")},
				{Name: "groups", Number: 2, Kind: "message", TypeName: fq("ItemList"), Card: "map", MapKey: "string"}}}
			f.Messages = append(f.Messages, req, resp)
			m := &spec.Method{Name: mn, In: fq(req.Name), Out: fq(resp.Name), HasConfig: true, Verb: v, Path: "/" + strings.ToLower(mn)}
			if file == "audit.proto" && i == 0 {
				// only this file binds fields to the URL: whatever that requires (imports, helpers)
				// belongs to its outputs alone
				req.Fields = append(req.Fields,
					&spec.Field{Name: "tenant", Number: 4, Kind: "string"},
					&spec.Field{Name: "page", Number: 5, Kind: "int32", Query: &spec.Query{Name: "page"}})
				m.Path = "/" + strings.ToLower(mn) + "/{tenant}"
			}
			if i == 0 {
				m.Headers = []*spec.Header{{Name: "x-api-key", Type: "string", Format: "uuid", Required: seed%3 != 0}}
			}
			s.Methods = append(s.Methods, m)
		}
		f.Services = []*spec.Service{s}
		return f
	}
	a := mk("audit.proto", "AuditService", "/audit", []string{"POST", "PUT"})
	b := mk("feed.proto", "FeedService", "/feed", []string{"POST", "PATCH", "POST"}[:2+int(seed%2)])
	// a sibling file of the same package that nothing imports: error-shaped messages in it
	// belong to its own outputs only
	errs := &spec.File{Path: name + "/errors.proto", Package: pkg, GoPackage: gp, Messages: []*spec.Message{
		{Name: "RateLimitError", Fields: []*spec.Field{{Name: "retry_after", Number: 1, Kind: "int32"}, {Name: "reason", Number: 2, Kind: "string"}}},
		{Name: "QuotaError", Fields: []*spec.Field{{Name: "limit", Number: 1, Kind: "int64"}}},
	}}
	return &spec.World{Name: name, Files: []*spec.File{types, a, b, errs}, Mock: true, Features: []string{"dependent_files", "same_package", "unimported_sibling_file"}}
}

func extraFile() *descriptorpb.FileDescriptorProto {
	w := gen.World(gen.Config{Seed: 4242, Name: "zextra", Allow: safeAllow(gen.AnnotationFeatures...), AltNames: true})
	return spec.BuildFile(w.Files[0])
}

func c15Request(w *spec.World, v genVariant) *pluginpb.CodeGeneratorRequest {
	req := &pluginpb.CodeGeneratorRequest{CompilerVersion: &pluginpb.Version{Major: proto.Int32(5), Minor: proto.Int32(29), Patch: proto.Int32(0)}}
	if v.Param != "" {
		req.Parameter = proto.String(v.Param)
	}
	req.ProtoFile = append(req.ProtoFile, spec.DepFiles()...)
	var files []*descriptorpb.FileDescriptorProto
	for _, f := range w.Files {
		drop := false
		for _, d := range v.Drop {
			if d == f.Path {
				drop = true
			}
		}
		if !drop {
			files = append(files, spec.BuildFile(f))
		}
	}
	if v.Swap && len(files) == 2 {
		files[0], files[1] = files[1], files[0]
	}
	if v.Extra {
		files = append([]*descriptorpb.FileDescriptorProto{extraFile()}, files...)
	}
	req.ProtoFile = append(req.ProtoFile, files...)
	req.FileToGenerate = append(req.FileToGenerate, v.Generate...)
	return req
}

type c15Env struct {
	orig, seamed *world.Plugins
	seam         *world.SeamStats
	mu           sync.Mutex
	runs         int
	tuples       map[string]int
	perturbed    int
}

func (e *c15Env) run(w *spec.World, v genVariant) *world.PluginResult {
	pl := e.orig
	if v.Seamed {
		pl = e.seamed
	}
	var env []string
	if v.Seamed {
		env = append(env, fmt.Sprintf("VERIF_MAPSEED=%d", v.MapSeed), fmt.Sprintf("VERIF_CLOCK=%d", v.Clock))
		if v.MapSite != "" {
			env = append(env, "VERIF_MAPSITE="+v.MapSite)
		}
	}
	if v.Procs > 0 {
		env = append(env, fmt.Sprintf("GOMAXPROCS=%d", v.Procs))
	}
	r := world.RunPlugin(pl.Bin[v.Plugin], c15Request(w, v), env...)
	e.mu.Lock()
	e.runs++
	e.mu.Unlock()
	return r
}

// compare returns the first file on which got differs from want (restricted to names
// present in want when subset is true).
func compareResults(want, got *world.PluginResult, subset bool) (string, string) {
	if want.Crash != "" || got.Crash != "" {
		// whether a plugin may crash at all is C16's business; here only a crash that
		// depends on the variant counts
		if (want.Crash == "") != (got.Crash == "") {
			return "<crash>", fmt.Sprintf("canonical crash=%q variant crash=%q", want.Crash, got.Crash)
		}
		return "", ""
	}
	if want.Error != got.Error {
		return "<error>", fmt.Sprintf("canonical error=%q variant error=%q", want.Error, got.Error)
	}
	for _, name := range want.Order {
		g, ok := got.Files[name]
		if !ok {
			if subset {
				continue
			}
			return name, "file missing in variant"
		}
		if g != want.Files[name] {
			return name, firstDiffLines(want.Files[name], g)
		}
	}
	if !subset {
		for _, name := range got.Order {
			if _, ok := want.Files[name]; !ok {
				return name, "extra file in variant"
			}
		}
	}
	return "", ""
}

// missingFor reports a file the all-together run emitted for source proto path src that
// the single-file run of src did not emit (attribution by the generated-name prefix).
func missingFor(src string, canon, single *world.PluginResult) string {
	base := strings.TrimSuffix(filepath.Base(src), ".proto")
	for _, name := range canon.Order {
		b := filepath.Base(name)
		if !strings.HasPrefix(b, base+"_") && !strings.HasPrefix(b, base+".") {
			continue
		}
		if _, ok := single.Files[name]; !ok {
			return name
		}
	}
	return ""
}

// extraFor reports a file the single-file run of src emitted that the all-together run does
// not emit at all: the set of outputs of a source must not shrink because sibling files are
// generated in the same invocation.
func extraFor(canon, single *world.PluginResult) string {
	for _, name := range single.Order {
		if _, ok := canon.Files[name]; !ok {
			return name
		}
	}
	return ""
}

func firstDiffLines(a, b string) string {
	al, bl := strings.Split(a, "\n"), strings.Split(b, "\n")
	for i := 0; i < len(al) && i < len(bl); i++ {
		if al[i] != bl[i] {
			return fmt.Sprintf("line %d: canonical %q / variant %q", i+1, truncate(al[i], 160), truncate(bl[i], 160))
		}
	}
	return fmt.Sprintf("length differs: %d vs %d lines", len(al), len(bl))
}

func fileKind(name string) string {
	base := filepath.Base(name)
	if i := strings.Index(base, "_"); i >= 0 && strings.HasSuffix(base, ".go") {
		return base[i+1:]
	}
	if i := strings.Index(base, "."); i >= 0 {
		return base[i+1:]
	}
	return base
}

func (e *c15Env) checkWorld(w *spec.World, mapSeeds int, seed int64) []*c15Finding {
	var out []*c15Finding
	paths := []string{}
	for _, f := range w.Files {
		paths = append(paths, f.Path)
	}
	report := func(v genVariant, file, detail string) {
		v.File = file
		sig := fmt.Sprintf("C15|%s|%s|%s", pluginLabel(v), v.Kind, fileKind(file))
		out = append(out, &c15Finding{sig: sig, detail: detail, variant: v, world: w})
	}
	for _, pc := range c15Plugins {
		base := genVariant{Plugin: pc.name, Param: pc.param, Generate: paths}
		canon := e.run(w, base)
		tup := func(kind string) {
			e.mu.Lock()
			e.tuples[w.Name+"|"+pc.label+"|"+kind]++
			e.mu.Unlock()
		}
		// (a) plain repetition under different GOMAXPROCS
		for _, procs := range []int{1, 16, 4, 16} {
			v := base
			v.Kind, v.Procs = "rerun", procs
			got := e.run(w, v)
			if f, d := compareResults(canon, got, false); f != "" {
				report(v, f, d)
			} else if canon.Crash == "" && got.Crash == "" && strings.Join(canon.Order, "\n") != strings.Join(got.Order, "\n") {
				// the very same request answered with the same files in another order: the
				// response (the plugin's output as protoc receives it) is not a function of the request
				report(v, "<file-order>", fmt.Sprintf("same request, same binary: files listed as %v, then as %v", canon.Order, got.Order))
			}
			tup("rerun")
		}
		// (b) seamed binary: seed 0 = sorted order must reproduce the unseamed output
		for s := 0; s < mapSeeds; s++ {
			v := base
			v.Kind, v.Seamed, v.MapSeed, v.Clock = "mapseed", true, uint64(s), 1700000000
			if s > 0 {
				v.MapSeed = gen.Mix(uint64(seed), uint64(s)) | 1
			}
			if f, d := compareResults(canon, e.run(w, v), false); f != "" {
				if s > 0 {
					// minimise: which single range site matters?
					for _, site := range e.seam.RangeSites {
						vs := v
						vs.MapSite = site
						if f2, d2 := compareResults(canon, e.run(w, vs), false); f2 != "" {
							v, f, d = vs, f2, d2
							break
						}
					}
				}
				report(v, f, d)
				break
			}
			tup("mapseed")
		}
		// (c) clock values
		for _, clk := range []int64{0, 1, 1700003600, 4102444800} {
			v := base
			v.Kind, v.Seamed, v.Clock = "clock", true, clk
			if f, d := compareResults(canon, e.run(w, v), false); f != "" {
				report(v, f, d)
				break
			}
			tup("clock")
		}
		// (d) request shapes
		if len(paths) >= 3 {
			// dependent files: each service file alone (its dependencies present, not generated)
			// and the types file alone must reproduce the bytes of the all-together run
			for i := range paths {
				v := base
				v.Kind, v.Generate = "single-file", []string{paths[i]}
				single := e.run(w, v)
				if f, d := compareResults(single, canon, true); f != "" {
					report(v, f, "output for "+paths[i]+" changes when the other files are generated in the same invocation: "+d)
				} else if m := missingFor(paths[i], canon, single); m != "" && single.Error == "" && canon.Error == "" {
					report(v, m, "generating "+paths[i]+" alone does not emit "+m+", which the same invocation emits when the other files are generated too")
				} else if x := extraFor(canon, single); x != "" && single.Error == "" && canon.Error == "" {
					report(v, x, "generating "+paths[i]+" alone emits "+x+", which is missing when the other files are generated in the same invocation")
				}
				tup(v.Kind)
			}
			v := base
			rev := make([]string, len(paths))
			for i := range paths {
				rev[i] = paths[len(paths)-1-i]
			}
			v.Kind, v.Generate = "permute-generate", rev
			if f, d := compareResults(canon, e.run(w, v), false); f != "" {
				report(v, f, d)
			}
			tup(v.Kind)
		}
		if len(paths) == 2 {
			v := base
			v.Kind, v.Generate = "permute-generate", []string{paths[1], paths[0]}
			if f, d := compareResults(canon, e.run(w, v), false); f != "" {
				report(v, f, d)
			}
			tup(v.Kind)
			v = base
			v.Kind, v.Swap = "permute-protofile", true
			if f, d := compareResults(canon, e.run(w, v), false); f != "" {
				report(v, f, d)
			}
			tup(v.Kind)
			for i := 0; i < 2; i++ {
				// only one file generated, the other still present
				v = base
				v.Kind, v.Generate = "single-file", []string{paths[i]}
				single := e.run(w, v)
				if f, d := compareResults(single, canon, true); f != "" {
					report(v, f, "output for "+paths[i]+" changes when the other file is generated in the same invocation: "+d)
				} else if m := missingFor(paths[i], canon, single); m != "" && single.Error == "" && canon.Error == "" {
					report(v, m, "generating "+paths[i]+" alone does not emit "+m+", which the same invocation emits when the other file is generated too")
				} else if x := extraFor(canon, single); x != "" && single.Error == "" && canon.Error == "" {
					report(v, x, "generating "+paths[i]+" alone emits "+x+", which is missing when the other file is generated in the same invocation")
				}
				tup(v.Kind)
				// the other file absent from the request altogether
				va := v
				va.Kind, va.Drop = "alone", []string{paths[1-i]}
				if f, d := compareResults(single, e.run(w, va), false); f != "" {
					report(va, f, d)
				}
				tup(va.Kind)
				// an unrelated extra file in proto_file
				ve := v
				ve.Kind, ve.Extra = "extra-file", true
				if f, d := compareResults(single, e.run(w, ve), false); f != "" {
					report(ve, f, d)
				}
				tup(ve.Kind)
			}
		}
		// (e) parameter spelling
		switch pc.label {
		case "openapi-yaml":
			for _, p := range []string{"format=yaml", "format=yml", " format = yaml ", "unknown=1,format=yaml"} {
				v := base
				v.Kind, v.Param = "param-spelling", p
				if f, d := compareResults(canon, e.run(w, v), false); f != "" {
					report(v, f, d)
				}
				tup(v.Kind)
			}
		case "go-http+mock":
			// adding the mock must not change the other files
			v := base
			v.Kind, v.Param = "mock-added", ""
			if f, d := compareResults(e.run(w, v), canon, true); f != "" {
				report(v, f, d)
			}
			tup(v.Kind)
		}
	}
	return out
}

func pluginLabel(v genVariant) string {
	for _, p := range c15Plugins {
		if p.name == v.Plugin && p.param == v.Param {
			return p.label
		}
	}
	return strings.TrimPrefix(v.Plugin, "protoc-gen-")
}

func c15Setup(scratch string) (*c15Env, error) {
	e := &c15Env{tuples: map[string]int{}}
	var err error
	e.orig, err = world.BuildPlugins(world.RepoDir, filepath.Join(scratch, "bin"))
	if err != nil {
		return nil, err
	}
	seamDir := filepath.Join(scratch, "seamed")
	e.seam, err = world.SeamedRepo(world.RepoDir, seamDir)
	if err != nil {
		return nil, fmt.Errorf("seam pass: %v", err)
	}
	e.seamed, err = world.BuildPlugins(seamDir, filepath.Join(scratch, "binseam"))
	if err != nil {
		return nil, fmt.Errorf("building seamed plugins: %v", err)
	}
	_ = os.RemoveAll(seamDir)
	return e, nil
}

func c15Check(pc *propCfg, tier string, seed int64) int {
	t0 := time.Now()
	fmt.Printf("VERIF_SEED=%d property=C15 tier=%s repo=%s\n", seed, tier, repoTreeHash())
	nWorlds, mapSeeds := 12, 8
	if tier == "thorough" {
		nWorlds, mapSeeds = 150, 48
	}
	scratch, err := os.MkdirTemp("", "verif-c15-")
	if err != nil {
		return fail2("%v", err)
	}
	defer os.RemoveAll(scratch)
	e, err := c15Setup(scratch)
	if err != nil {
		return fail2("%v", err)
	}
	kf := loadKnown()
	knownSig := map[string]*knownFinding{}
	for _, f := range kf.Findings {
		if f.Property == "C15" {
			knownSig[f.Signature] = f
		}
	}
	worlds := c15Worlds(seed, nWorlds)
	var mu sync.Mutex
	var findings []*c15Finding
	var wg sync.WaitGroup
	sem := make(chan struct{}, 16)
	for _, w := range worlds {
		wg.Add(1)
		go func(w *spec.World) {
			defer wg.Done()
			sem <- struct{}{}
			defer func() { <-sem }()
			fs := e.checkWorld(w, mapSeeds, seed)
			mu.Lock()
			findings = append(findings, fs...)
			mu.Unlock()
		}(w)
	}
	wg.Wait()
	sort.Slice(findings, func(i, j int) bool {
		if findings[i].sig != findings[j].sig {
			return findings[i].sig < findings[j].sig
		}
		return findings[i].world.Name < findings[j].world.Name
	})
	reproduced := map[string]bool{}
	seen := map[string]bool{}
	nviol := 0
	for _, f := range findings {
		if seen[f.sig] {
			continue
		}
		seen[f.sig] = true
		if knownSig[f.sig] != nil {
			reproduced[f.sig] = true
			continue
		}
		path, err := writeGenReplay(seed, f)
		if err != nil {
			return fail2("%v", err)
		}
		nviol++
		fmt.Printf("VIOLATION property=C15 replay=%s\n  signature=%s world=%s\n  %s\n", path, f.sig, f.world.Name, truncate(f.detail, 600))
	}
	var known []*knownFinding
	for _, f := range kf.Findings {
		if f.Property == "C15" {
			known = append(known, f)
			if reproduced[f.Signature] {
				fmt.Printf("KNOWN-FINDING: property=C15 %s\n", f.What)
			}
		}
	}
	wall := time.Since(t0).Seconds()
	a := newAgg()
	a.runs = e.runs
	a.tuples = e.tuples
	a.worldsBuilt, a.worldsBooted = len(worlds), len(worlds)
	samples := []json.RawMessage{}
	if len(worlds) > 0 {
		b, _ := json.Marshal(map[string]any{"world": worlds[0].Name, "features": worlds[0].Features, "variant": genVariant{Plugin: "protoc-gen-go-http", Kind: "mapseed", Seamed: true, MapSeed: 12345, Generate: []string{worlds[0].Files[0].Path, worlds[0].Files[1].Path}}})
		samples = append(samples, b)
	}
	a.samples = samples
	pc.assumptions = []string{
		fmt.Sprintf("map-order seam covers %d range-over-map sites in /repo/internal and /repo/cmd; nondeterminism inside third-party libraries (protobuf-go, yaml, libopenapi) is covered by repetition only", len(e.seam.RangeSites)),
		"unseamed sources found by the pass: " + strings.Join(e.seam.Unseamed, "; "),
	}
	a.probes["range_over_map_sites_seamed"] = len(e.seam.RangeSites)
	a.probes["time_now_sites_seamed"] = len(e.seam.NowSites)
	a.faults["map-order-permutation"] = e.tuples["__mapseed_runs"]
	for k, v := range e.tuples {
		parts := strings.Split(k, "|")
		if len(parts) == 3 {
			a.faults["variant:"+parts[2]] += v
		}
	}
	if err := writeEvidence(pc, tier, seed, a, nviol, wall, known, reproduced); err != nil {
		return fail2("%v", err)
	}
	fmt.Printf("summary property=C15 tier=%s worlds=%d plugin_runs=%d range_sites=%d violations=%d wall=%.1fs\n", tier, len(worlds), e.runs, len(e.seam.RangeSites), nviol, wall)
	if nviol > 0 {
		return 1
	}
	return 0
}

func writeGenReplay(seed int64, f *c15Finding) (string, error) {
	dir := filepath.Join(world.VerifDir, "replays")
	_ = os.MkdirAll(dir, 0o755)
	specJSON, _ := json.Marshal(f.world)
	genJSON, _ := json.Marshal(f.variant)
	rep := map[string]any{"property": "C15", "seed": seed, "repo_tree": repoTreeHash(), "spec": json.RawMessage(specJSON),
		"class": "generation-differs", "signature": f.sig, "detail": f.detail, "gen": json.RawMessage(genJSON)}
	h := sha256.Sum256([]byte(f.sig))
	path := filepath.Join(dir, fmt.Sprintf("C15-%d-%s.json", seed, hex.EncodeToString(h[:4])))
	b, _ := json.MarshalIndent(rep, "", " ")
	return path, os.WriteFile(path, b, 0o644)
}

func c15Replay(pc *propCfg, rf *replayFile, w *spec.World) int {
	scratch, err := os.MkdirTemp("", "verif-c15-")
	if err != nil {
		return fail2("%v", err)
	}
	defer os.RemoveAll(scratch)
	e, err := c15Setup(scratch)
	if err != nil {
		return fail2("%v", err)
	}
	var v genVariant
	if err := json.Unmarshal(rf.Gen, &v); err != nil {
		return fail2("replay has no gen variant: %v", err)
	}
	fs := e.checkWorld(w, 2, rf.Seed)
	// re-run exactly the recorded variant against the canonical run
	var paths []string
	for _, f := range w.Files {
		paths = append(paths, f.Path)
	}
	canonV := genVariant{Plugin: v.Plugin, Param: v.Param, Generate: paths}
	if v.Kind == "single-file" || v.Kind == "alone" || v.Kind == "extra-file" {
		canonV.Generate = v.Generate
		canonV.Kind = "single-file"
	}
	if v.Kind == "param-spelling" || v.Kind == "mock-added" {
		canonV.Param = map[string]string{"param-spelling": "", "mock-added": "generate_mock=true"}[v.Kind]
	}
	canon := e.run(w, canonV)
	got := e.run(w, v)
	subset := v.Kind == "mock-added"
	if v.Kind == "single-file" {
		full := canonV
		full.Generate = paths
		if f, d := compareResults(got, e.run(w, full), true); f != "" {
			fmt.Printf("reproduced: %s: %s\nVIOLATION property=C15 replay=(this file)\n", f, d)
			return 1
		}
	} else if f, d := compareResults(canon, got, subset); f != "" {
		fmt.Printf("reproduced: %s: %s\nVIOLATION property=C15 replay=(this file)\n", f, d)
		return 1
	}
	for _, f := range fs {
		if f.sig == rf.Signature {
			fmt.Printf("reproduced by re-check: %s\nVIOLATION property=C15 replay=(this file)\n", f.detail)
			return 1
		}
	}
	fmt.Println("replay clean: generation is identical for the recorded variant")
	return 0
}
