package main

import (
	"crypto/sha256"
	"encoding/hex"
	"encoding/json"
	"fmt"
	"os"
	"os/exec"
	"path/filepath"
	"regexp"
	"runtime"
	"sort"
	"strings"
	"sync"
	"time"

	"verif/harness/world"
	"verif/simrt/spec"
)

// runnerResult mirrors simrt.Result (decoded from the runner's JSON).
type runnerViolation struct {
	Class     string          `json:"class"`
	Signature string          `json:"signature"`
	Detail    string          `json:"detail"`
	Plan      json.RawMessage `json:"plan"`
	LogHash   string          `json:"log_hash"`
	Log       []string        `json:"log,omitempty"`
	Known     bool            `json:"known,omitempty"`
	Shrunk    bool            `json:"shrunk,omitempty"`
}

type runnerResult struct {
	World         string                      `json:"world"`
	Prop          string                      `json:"prop"`
	Mode          string                      `json:"mode"`
	Runs          int                         `json:"runs"`
	SimTimeUs     int64                       `json:"sim_time_us"`
	Steps         int64                       `json:"steps"`
	Violations    []*runnerViolation          `json:"violations"`
	KnownHits     map[string]int              `json:"known_hits"`
	KnownSamples  map[string]*runnerViolation `json:"known_samples"`
	Faults        map[string]int              `json:"faults"`
	Probes        map[string]int              `json:"probes"`
	Tuples        map[string]int              `json:"tuples"`
	Interleavings int                         `json:"interleavings"`
	ILHashes      []string                    `json:"il_hashes"`
	Samples       []json.RawMessage           `json:"samples"`
	StepCaps      int                         `json:"step_caps"`
	HarnessErrors []string                    `json:"harness_errors"`
	WallMs        int64                       `json:"wall_ms"`
	LogHashes     []string                    `json:"log_hashes"`
}

type job struct {
	world  *world.Built
	mode   string
	checks int
	rseed  uint64
	plan   string // replay plan file (optional)
	procs  string // GOMAXPROCS for the runner (default 1)
	out    string
	res    *runnerResult
	err    string
	stdout string
	exit   int
}

func repoTreeHash() string {
	out, err := exec.Command("git", "-C", world.RepoDir, "rev-parse", "HEAD").Output()
	h := strings.TrimSpace(string(out))
	if err != nil {
		h = "unknown"
	}
	st, _ := exec.Command("git", "-C", world.RepoDir, "status", "--porcelain").Output()
	if len(strings.TrimSpace(string(st))) > 0 {
		d, _ := exec.Command("git", "-C", world.RepoDir, "diff").Output()
		s := sha256.Sum256(d)
		h += "+dirty-" + hex.EncodeToString(s[:4])
	}
	return h
}

func runJob(b *world.Batch, prop string, j *job, known []string, extraEnv []string, timeout time.Duration) {
	shrink := "20s"
	if v := os.Getenv("VERIF_SHRINKTIME"); v != "" {
		shrink = v // development aid (mass re-evaluation of seeded changes): shorter minimisation
	}
	args := []string{"-test.run=^TestSim$", "-test.timeout=0", "-rapid.nofailfile", "-rapid.shrinktime=" + shrink}
	if j.plan == "" {
		args = append(args, fmt.Sprintf("-rapid.checks=%d", j.checks), fmt.Sprintf("-rapid.seed=%d", j.rseed))
	}
	cmd := exec.Command(b.Runner, args...)
	procs := "1"
	if j.procs != "" {
		procs = j.procs
	}
	cmd.Env = append(os.Environ(),
		"GOMAXPROCS="+procs,
		"VERIF_WORLD="+j.world.Spec.Name,
		"VERIF_PROP="+prop,
		"VERIF_MODE="+j.mode,
		"VERIF_OUT="+j.out,
		"VERIF_KNOWN="+strings.Join(known, "\x1f"),
		"VERIF_WORLD_DIR="+j.world.Dir,
	)
	if j.plan != "" {
		cmd.Env = append(cmd.Env, "VERIF_PLAN="+j.plan)
	}
	cmd.Env = append(cmd.Env, extraEnv...)
	cmd.Dir = b.ModDir
	done := make(chan struct{})
	var out []byte
	var err error
	go func() { out, err = cmd.CombinedOutput(); close(done) }()
	select {
	case <-done:
	case <-time.After(timeout):
		if cmd.Process != nil {
			_ = cmd.Process.Kill()
		}
		<-done
		j.err = fmt.Sprintf("runner watchdog expired after %v", timeout)
	}
	j.stdout = string(out)
	if err != nil {
		if ee, ok := err.(*exec.ExitError); ok {
			j.exit = ee.ExitCode()
		} else {
			j.exit = -1
			j.err = err.Error()
		}
	}
	if data, rerr := os.ReadFile(j.out); rerr == nil {
		r := &runnerResult{}
		if jerr := json.Unmarshal(data, r); jerr == nil {
			j.res = r
		} else {
			j.err = "bad runner result: " + jerr.Error()
		}
	} else if j.err == "" {
		j.err = "runner wrote no result: " + truncate(j.stdout, 2000)
	}
}

func truncate(s string, n int) string {
	if len(s) > n {
		return s[:n] + "…"
	}
	return s
}

func runJobs(b *world.Batch, prop string, jobs []*job, known []string, extraEnv []string, par int, timeout time.Duration) {
	if par <= 0 {
		par = runtime.NumCPU()
	}
	sem := make(chan struct{}, par)
	var wg sync.WaitGroup
	for _, j := range jobs {
		wg.Add(1)
		go func(j *job) {
			defer wg.Done()
			sem <- struct{}{}
			defer func() { <-sem }()
			runJob(b, prop, j, known, extraEnv, timeout)
		}(j)
	}
	wg.Wait()
}

// agg is the aggregate over all runner processes of a check.
type agg struct {
	runs          int
	simUs         int64
	steps         int64
	faults        map[string]int
	probes        map[string]int
	tuples        map[string]int
	interleavings int
	samples       []json.RawMessage
	stepCaps      int
	harnessErrs   []string
	worldsBuilt   int
	worldsBooted  int
	worldsRefused int
	bootFailures  int
	shapes        map[string]bool
	knownHits     map[string]int
	fixedReplayed int
	procs         int
}

func newAgg() *agg {
	return &agg{faults: map[string]int{}, probes: map[string]int{}, tuples: map[string]int{}, shapes: map[string]bool{}, knownHits: map[string]int{}}
}

func (a *agg) add(r *runnerResult) {
	a.procs++
	a.runs += r.Runs
	a.simUs += r.SimTimeUs
	a.steps += r.Steps
	for k, v := range r.Faults {
		a.faults[k] += v
	}
	for k, v := range r.Probes {
		a.probes[k] += v
	}
	for k, v := range r.Tuples {
		a.tuples[k] += v
	}
	a.interleavings += r.Interleavings
	if len(a.samples) < 4 {
		for _, s := range r.Samples {
			if len(a.samples) < 4 {
				a.samples = append(a.samples, s)
			}
		}
	}
	a.stepCaps += r.StepCaps
	a.harnessErrs = append(a.harnessErrs, r.HarnessErrors...)
	for k, v := range r.KnownHits {
		a.knownHits[k] += v
	}
}

type foundViolation struct {
	sig    string
	class  string
	detail string
	replay string
}

func writeReplay(prop string, seed int64, w *spec.World, v *runnerViolation, boot string) (string, error) {
	dir := filepath.Join(world.VerifDir, "replays")
	if err := os.MkdirAll(dir, 0o755); err != nil {
		return "", err
	}
	specJSON, _ := json.Marshal(w)
	rep := map[string]any{
		"property":  prop,
		"seed":      seed,
		"repo_tree": repoTreeHash(),
		"spec":      json.RawMessage(specJSON),
	}
	var sig string
	if v != nil {
		rep["plan"] = v.Plan
		rep["class"] = v.Class
		rep["signature"] = v.Signature
		rep["detail"] = v.Detail
		rep["log_hash"] = v.LogHash
		sig = v.Signature
	} else {
		rep["class"] = "boot"
		rep["boot"] = boot
		sig = bootSignature(prop, w, boot)
		rep["signature"] = sig
	}
	h := sha256.Sum256([]byte(sig))
	name := fmt.Sprintf("%s-%d-%s.json", prop, seed, hex.EncodeToString(h[:4]))
	path := filepath.Join(dir, name)
	b, _ := json.MarshalIndent(rep, "", " ")
	return path, os.WriteFile(path, b, 0o644)
}

var (
	reReqField   = regexp.MustCompile(`req\.[A-Za-z0-9_]+`)
	reMismatch   = regexp.MustCompile(`\(mismatched types [^)]*\)`)
	reSvc        = regexp.MustCompile(`Alpha|BetaService|GammaAPI`)
	reCallHelper = regexp.MustCompile(`With<Svc>Call[A-Za-z0-9_]+`)
	reHdrGetter  = regexp.MustCompile(`get[A-Za-z0-9_]+Headers`)
)

// bootSignature = (property, risk features of the world, normalised first diagnostic).
func bootSignature(prop string, w *spec.World, diag string) string {
	if w.Probe == "" {
		// seeded world: the emitted file the first diagnostic points at names the generator
		// feature involved; the world's full feature list would make the signature unstable
		return prop + "|boot|" + diagFileKind(diag) + "|" + normaliseDiag(diag)
	}
	var risk []string
	for _, f := range w.Features {
		if strings.HasPrefix(f, "risky_") {
			risk = append(risk, f)
		}
	}
	sort.Strings(risk)
	return prop + "|boot|" + w.Probe + "|" + strings.Join(risk, ",") + "|" + normaliseDiag(diag)
}

var reDiagFile = regexp.MustCompile(`([A-Za-z0-9_]+)\.(pb\.go|ts):`)

// diagFileKind extracts e.g. "unwrap.pb.go" from ".../svc_unwrap.pb.go:234:13: ...".
func diagFileKind(diag string) string {
	m := reDiagFile.FindStringSubmatch(diag)
	if m == nil {
		return ""
	}
	name := m[1]
	if i := strings.Index(name, "_"); i >= 0 {
		name = name[i+1:]
	}
	return name + "." + m[2]
}

func normaliseDiag(d string) string {
	line := d
	for _, ln := range strings.Split(d, "\n") {
		ln = strings.TrimSpace(ln)
		if ln == "" || strings.HasPrefix(ln, "#") {
			continue
		}
		line = ln
		break
	}
	// strip file positions and world-specific identifiers
	if i := strings.Index(line, ".go:"); i >= 0 {
		rest := line[i+4:]
		// skip "line:col: "
		if j := strings.Index(rest, ": "); j >= 0 {
			line = rest[j+2:]
		}
	}
	if i := strings.Index(line, ".ts:"); i >= 0 {
		line = line[i+4:]
	}
	line = reReqField.ReplaceAllString(line, "req.<F>")
	line = reMismatch.ReplaceAllString(line, "(mismatched types)")
	line = reSvc.ReplaceAllString(line, "<Svc>")
	line = reCallHelper.ReplaceAllString(line, "With<Svc>Call<H>")
	line = reHdrGetter.ReplaceAllString(line, "get<M>Headers")
	var b strings.Builder
	// replace identifiers that embed generated names by a placeholder: keep only the message shape
	words := strings.Fields(line)
	for i, w := range words {
		if i > 14 {
			break
		}
		if strings.ContainsAny(w, "0123456789") && len(w) > 12 {
			w = "<id>"
		}
		b.WriteString(w)
		b.WriteByte(' ')
	}
	return strings.TrimSpace(b.String())
}
