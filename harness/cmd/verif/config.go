package main

import (
	"fmt"
	"strings"

	"verif/harness/gen"
	"verif/simrt/spec"
)

type tierCfg struct {
	worlds    int // seeded random worlds
	batchSize int
	checks    int // rapid checks per (world, mode)
	timeoutS  int // per runner process
	cold      int // mode "coldstart": runner processes per world (one route each, at most this many)
	coldChk   int // plans per cold-start process
	env       []string
}

type propCfg struct {
	id     string
	level  string
	design string
	modes  []string
	passes []string
	needTS bool
	mock   bool
	quick  tierCfg
	thor   tierCfg
	// gen config for seeded worlds
	genCfg func(seed uint64, name string) gen.Config
	// probes: small dedicated worlds for risky feature combinations
	probes      func() []*spec.World
	rule        string
	technique   string
	assumptions []string
	real, stubs []string
	// custom replaces the generic flow (C15)
	custom func(pc *propCfg, tier string, seed int64) int
	customReplay func(pc *propCfg, rf *replayFile, w *spec.World) int
}

var commonReal = []string{"sebuf plugins (fresh build of /repo working tree)", "protoc-gen-go", "generated Go server/client code",
	"net/http request/response codecs, body framing, ServeMux, http.Client", "protojson/proto", "sebuf/http error types"}
var commonStubs = []string{"TCP + connection management (simulated link)", "buf.build/go/protovalidate (stub interpreting a rule subset)", "application handlers (simulator-owned)"}

func safeAllow(extra ...string) map[string]bool {
	m := map[string]bool{}
	for _, f := range gen.SafeFeatures {
		m[f] = true
	}
	for _, f := range gen.LateFeatures {
		m[f] = true
	}
	for _, f := range extra {
		m[f] = true
	}
	return m
}

func probe(name, label string, force ...string) *spec.World {
	w := gen.World(gen.Config{Seed: 7, Name: name, Allow: map[string]bool{}, Force: force})
	w.Probe = label
	return w
}

var props = map[string]*propCfg{}

func init() {
	props["C01"] = &propCfg{
		id: "C01", level: "exploration", design: "DESIGN.md §4 C01", modes: []string{"benign"},
		quick: tierCfg{worlds: 36, batchSize: 24, checks: 600, timeoutS: 300},
		thor:  tierCfg{worlds: 200, batchSize: 40, checks: 10800, timeoutS: 9000},
		genCfg: func(seed uint64, name string) gen.Config {
			if seed%2 == 1 {
				// every other world adds the JSON-mapping annotations (custom codecs in the path)
				return gen.Config{Seed: seed, Name: name, Allow: safeAllow(gen.AnnotationFeatures...), AnnService: true}
			}
			return gen.Config{Seed: seed, Name: name, Allow: safeAllow()}
		},
		probes: func() []*spec.World {
			return []*spec.World{
				probe("pdefpath", "default-path", gen.RDefaultPath),
				probe("pdefpathbase", "default-path+base", gen.RDefaultPath, gen.FBasePath),
				probe("pverbonly", "verb-only", gen.RVerbOnly),
				probe("prepq", "repeated-query", gen.RRepeatedQuery, gen.FQuery),
				probe("poptq", "optional-query", gen.ROptionalQuery, gen.FQuery),
				probe("pnoslash", "path-without-leading-slash", gen.RPathNoSlash),
				probe("pnoslashbase", "path-without-leading-slash+base", gen.RPathNoSlash, gen.FBasePath),
				probe("ppathdigit", "path-variable-named-x_2", gen.RPathVarDigit, gen.FPathVars),
				probe("pduphdr", "same-header-on-two-methods", gen.RDupMethodHeader),
				probe("psamemeth", "same-method-name-in-two-services", gen.RSameMethodName),
				twoPkgWorld(10601, "p2pkg", false),
			}
		},
		rule: "plans = 1-4 concurrent Go-client calls over the RPCs of a seeded world (values drawn per field kind incl. boundary values, content type per client and per call, base URL with/without trailing slash) executed on the simulated link under a drawn fragmentation / delay / interleaving schedule; distinct_nontrivial counts distinct (world, rpc, client>server, content type, outcome) tuples for which the delivery oracle compared request and response",
		technique: "deterministic simulation: seeded schedules + fragmentation over a simulated HTTP link (real net/http codecs), delivery oracle per call",
	}
	props["C11"] = &propCfg{
		id: "C11", level: "fault_enumeration", design: "DESIGN.md §4 C11", modes: []string{"server-link-faults", "server-garbage", "client-faults", "ts-client-faults"}, needTS: true,
		quick: tierCfg{worlds: 32, batchSize: 24, checks: 450, timeoutS: 300, env: []string{"VERIF_SWEEP=1", "VERIF_SWEEP_MAX=3"}},
		thor:  tierCfg{worlds: 160, batchSize: 40, checks: 7200, timeoutS: 9000, env: []string{"VERIF_SWEEP=1", "VERIF_SWEEP_MAX=60"}},
		genCfg: func(seed uint64, name string) gen.Config {
			if seed%2 == 1 {
				// custom decoders for annotated messages in the path of hostile bodies (Go only)
				return gen.Config{Seed: seed, Name: name, Allow: safeAllow(gen.AnnotationFeatures...), AnnService: true, NoTS: true}
			}
			// the other half also gets its TS client generated: mode ts-client-faults
			return gen.Config{Seed: seed, Name: name, Allow: safeAllow()}
		},
		rule: "server runs: a valid Go-client or contract-client request with one fault (truncate / reset / stall at a drawn body or header offset, duplicate delivery, drop, write error) placed inside the in-flight message, plus mutated bodies (truncated JSON, token swaps, duplicate keys, deep nesting, huge numbers, invalid UTF-8, invalid wire data) under 9 content types; client runs: rogue upstream responses and response-direction faults with virtual-clock deadlines; sweeps enumerate every truncation and reset offset of the base plan's body; distinct_nontrivial counts distinct (world, rpc, mode, codec family, fault or body kind, dispatched?, status) tuples on which an oracle was evaluated",
		technique: "deterministic simulation with fault injection on a simulated HTTP link (truncate/reset/stall/dup/drop/write-error/rogue upstream, virtual-clock deadlines) + single-fault offset sweeps",
	}
	props["C17"] = &propCfg{
		id: "C17", level: "exploration", design: "DESIGN.md §4 C17", modes: []string{"isolation", "history", "coldstart"}, passes: []string{"yield"},
		quick: tierCfg{worlds: 28, batchSize: 24, checks: 360, timeoutS: 300, cold: 10, coldChk: 3},
		thor:  tierCfg{worlds: 140, batchSize: 40, checks: 6300, timeoutS: 9000, cold: 48, coldChk: 12},
		genCfg: func(seed uint64, name string) gen.Config {
			if seed%3 == 0 {
				// worlds with the JSON-mapping annotations: their generated codecs run under the same interleavings
				return gen.Config{Seed: seed, Name: name, Allow: safeAllow(gen.AnnotationFeatures...), AnnService: true, Force: []string{gen.FHeadersSvc}, MinMethods: 2}
			}
			return gen.Config{Seed: seed, Name: name, Allow: safeAllow(), Force: []string{gen.FMultiService, gen.FHeadersSvc, gen.FHeadersMeth}, MinServices: 2, MinMethods: 2}
		},
		rule: "plans = 2-10 Go-client calls over all routes of a multi-service world (shared or separate http.Client, client default headers, per-call options with distinct marker values, valid / missing / invalid required headers, scripted handler results or register-per-key store operations), released concurrently or sequentially and interleaved by the drawn schedule at I/O points and at the access probes inserted into the generated code; each call is re-executed alone in a fresh instance and compared (outcome, request line + headers on the wire, handler-visible request); accesses are checked by the vector-clock race detector; store histories by porcupine; distinct_nontrivial counts distinct (world, rpc, outcome kind, #calls, sequential?) tuples compared with a solo run plus linearizable histories by (world, #ops)",
		technique: "deterministic simulation: seeded interleavings at I/O and inserted yield points, solo-run isolation oracle, vector-clock happens-before race detection, porcupine linearizability of the call history",
		stubs: []string{"sync.Once / sync.Mutex in generated code replaced by simulator-aware equivalents (scratch copy only)"},
	}
	props["C02"] = &propCfg{
		id: "C02", level: "exploration", design: "DESIGN.md §4 C02", needTS: true, modes: []string{"binding"},
		quick: tierCfg{worlds: 32, batchSize: 24, checks: 750, timeoutS: 300},
		thor:  tierCfg{worlds: 160, batchSize: 40, checks: 13500, timeoutS: 9000},
		genCfg: func(seed uint64, name string) gen.Config {
			a := safeAllow()
			delete(a, gen.FHeaderOverride)
			return gen.Config{Seed: seed, Name: name, Allow: a, Force: []string{gen.FPathVars, gen.FQuery, gen.FQueryOnBody}, TSSafe: true}
		},
		rule: "plans = 1-2 raw contract-client requests on RPCs with path variables and/or query parameters: verb x body {absent, empty, {}, object omitting the URL-bound fields, object with other fields} x codec {JSON, protobuf} x URL values {valid boundary values, unconvertible value on one field, required query parameter left out}, delivered fragmented and delayed; oracle = handler-visible message equals URL-bound fields from the URL + body fields, or 400 naming the field and no dispatch; distinct_nontrivial counts distinct (world, rpc, server, codec, body kind, outcome, field shape) tuples",
		technique: "deterministic simulation: contract client emitting raw requests over the simulated link, reference binding model as oracle",
	}
	props["C03"] = &propCfg{
		id: "C03", level: "exploration", design: "DESIGN.md §4 C03", modes: []string{"matrix", "link-faults"}, needTS: true,
		quick: tierCfg{worlds: 32, batchSize: 24, checks: 240, timeoutS: 300},
		thor:  tierCfg{worlds: 160, batchSize: 40, checks: 3600, timeoutS: 9000},
		genCfg: func(seed uint64, name string) gen.Config {
			a := safeAllow()
			delete(a, gen.FHeaderOverride)
			return gen.Config{Seed: seed, Name: name, Allow: a, Force: []string{gen.FNameShapes}, TSSafe: true}
		},
		probes: func() []*spec.World {
			ws := []*spec.World{
				probe("pc3def", "no-config", gen.RDefaultPath),
				probe("pc3defbase", "no-config+base", gen.RDefaultPath, gen.FBasePath),
				probe("pc3verb", "verb-only", gen.RVerbOnly),
				probe("pc3verbbase", "verb-only+base", gen.RVerbOnly, gen.FBasePath),
				probe("pc3noslash", "path-without-leading-slash", gen.RPathNoSlash),
				probe("pc3noslashbase", "path-without-leading-slash+base", gen.RPathNoSlash, gen.FBasePath),
				probe("pc3basenoslash", "base-without-leading-slash", gen.RBaseNoSlash, gen.FBasePath),
				probe("pc3trail", "trailing-slash-paths", gen.FTrailingSlash, gen.FBasePath),
				probe("pc3trailnobase", "trailing-slash-paths-no-base", gen.FTrailingSlash),
				probe("pc3renamed", "one-path-shape-two-variable-names", gen.RSharedRenamed, gen.FPathVars, gen.FBasePath),
				probe("pc3renamednobase", "one-path-shape-two-variable-names-no-base", gen.RSharedRenamed, gen.FPathVars),
			}
			return ws
		},
		rule: "per plan one RPC of a seeded world and one drawn request, sent by three kinds of client (generated Go client, generated TS client, a client that knows only the emitted OpenAPI document) to two servers (generated Go server, generated TS server) over the simulated link; oracle = every pair delivers the request to the handler of that RPC, the three request lines agree (verb, decoded path, query-name set) and match exactly one operation of the documents, TS route descriptors equal the document's (verb, template), the document agrees with the annotations on parameter placement and has exactly one operation per RPC; distinct_nontrivial counts distinct (world, rpc, client>server, path configuration) delivered tuples",
		technique: "deterministic co-simulation: full client x server delivery matrix (Go, TS, OpenAPI-driven) over the simulated link + document cross-check in the same pass",
		real:      []string{"protoc-gen-openapiv3 output parsed as a third party would", "generated TS modules in Node 22"},
		stubs:     []string{"TS application handlers (proxied)", "route matcher of the TS hosting framework"},
	}
	props["C08"] = &propCfg{
		id: "C08", level: "exploration", design: "DESIGN.md §4 C08", modes: []string{"ts-go", "go-ts", "ts-ts"}, needTS: true,
		quick: tierCfg{worlds: 28, batchSize: 24, checks: 240, timeoutS: 300},
		thor:  tierCfg{worlds: 120, batchSize: 40, checks: 3600, timeoutS: 9000},
		genCfg: func(seed uint64, name string) gen.Config {
			a := safeAllow()
			delete(a, gen.FHeaderOverride) // case-variant overriding is C09's subject
			return gen.Config{Seed: seed, Name: name, Allow: a, TSSafe: true}
		},
		probes: func() []*spec.World {
			return []*spec.World{probe("ptspathquery", "path-variable+query-on-bodyless-route", gen.RPathQueryTS, gen.FPathVars, gen.FQuery)}
		},
		rule: "plans = 1-3 calls per language pair (TS client -> Go server, Go client -> TS server, TS client -> TS server); the generated TS modules run unmodified in Node 22 behind a lock-step bridge (injected fetch, Request->Response route handlers) on the same simulated link as the Go nodes; values drawn per field kind (finite floats), headers via generic and typed helper options of both clients, AbortSignal mid-flight; oracle = delivery oracle on the contract JSON form + modules load; distinct_nontrivial counts distinct (world, rpc, client>server, outcome) tuples",
		technique: "deterministic co-simulation: generated TS code in Node 22 driven lock-step by the Go kernel over the simulated link; delivery oracle per call",
		real:      []string{"generated TS client and server modules (unmodified, Node 22 type stripping)", "Node fetch primitives (Request, Response, Headers, URL, URLSearchParams, AbortSignal)"},
		stubs:     []string{"TS application handlers (proxied to the Go app node)", "the hosting framework's route matcher (segment-wise template match in the bridge)"},
	}
	props["C09"] = &propCfg{
		id: "C09", level: "exploration", design: "DESIGN.md §4 C09", needTS: true, modes: []string{"headers", "openapi-headers"},
		quick: tierCfg{worlds: 32, batchSize: 24, checks: 750, timeoutS: 300},
		thor:  tierCfg{worlds: 160, batchSize: 40, checks: 13500, timeoutS: 9000},
		genCfg: func(seed uint64, name string) gen.Config {
			return gen.Config{Seed: seed, Name: name, Allow: safeAllow(), Force: []string{gen.FHeadersSvc, gen.FHeadersMeth}, TSSafe: true}
		},
		probes: func() []*spec.World {
			return []*spec.World{probe("poptoverride", "optional-method-header-overrides-required-service-header", gen.ROptionalOverride, gen.FHeadersSvc, gen.FHeaderOverride)}
		},
		rule: "plans = 1-2 raw requests with explicit header lines: per declared header (service x method merge, case variants) a state in {valid canonical, absent, empty, unambiguously invalid for its type/format}; the body (valid, garbage or 5 KB) is delivered after the header block in small delayed chunks and its reader is instrumented; oracle = reference header model: 400 with exactly one violation per offending required header, no dispatch and zero body reads before the status was committed, or never rejected for headers; distinct_nontrivial counts distinct (world, rpc, server, outcome, per-header (type/format, required, state)) tuples",
		technique: "deterministic simulation: contract client with raw header sets, delayed instrumented body stream, reference header model as oracle",
	}
	props["C10"] = &propCfg{
		id: "C10", level: "exploration", design: "DESIGN.md §4 C10", needTS: true, modes: []string{"errors", "upstream-errors"},
		quick: tierCfg{worlds: 32, batchSize: 24, checks: 750, timeoutS: 300},
		thor:  tierCfg{worlds: 160, batchSize: 40, checks: 13500, timeoutS: 9000},
		genCfg: func(seed uint64, name string) gen.Config {
			a := safeAllow()
			delete(a, gen.FHeaderOverride)
			return gen.Config{Seed: seed, Name: name, Allow: a, Force: []string{gen.FCustomError, gen.FRules, gen.FNested}, TSSafe: true}
		},
		rule: "plans = 1-3 calls (generated Go client or raw contract client) each with one error source {missing required header, unconvertible URL value, malformed body, rule violation with nested/repeated paths, plain error, sebuf Error, ValidationError from the handler, custom *Error message, wrapped custom error} x codec {JSON, protobuf} x scripted error hook {none, returns nil, returns message, sets status, sets headers, writes body}; oracle = documented table (status, content type mirrors the request, body decodes to the expected message, hook overrides) and client-side error value; distinct_nontrivial counts distinct (world, source, codec, hook behaviour, client, status) tuples",
		technique: "deterministic simulation: scripted app-handler and error-hook nodes, Go and contract clients as observers, documented error table as oracle",
	}
	props["C20"] = &propCfg{
		id: "C20", level: "exploration", design: "DESIGN.md §4 C20", modes: []string{"mock"}, passes: []string{"rand", "yield"}, mock: true,
		quick: tierCfg{worlds: 32, batchSize: 24, checks: 600, timeoutS: 300},
		thor:  tierCfg{worlds: 160, batchSize: 40, checks: 10800, timeoutS: 9000},
		genCfg: func(seed uint64, name string) gen.Config {
			a := safeAllow(gen.FExamples)
			// every other world keeps to the shapes the mock fills (examples matter there);
			// the rest use the full field generator, incl. recursive types
			return gen.Config{Seed: seed, Name: name, Allow: a, Force: []string{gen.FExamples, gen.RMockRecursive}, Mock: true, MockSafe: seed%2 == 0}
		},
		probes: func() []*spec.World {
			return []*spec.World{
				mockProbe("pmockint32", "mock-int32-field", &spec.Field{Name: "count", Number: 1, Kind: "int32"}),
				mockProbe("pmockfloat", "mock-float-field", &spec.Field{Name: "ratio", Number: 1, Kind: "float"}),
				mockProbe("pmockrepstr", "mock-repeated-string", &spec.Field{Name: "tags", Number: 1, Kind: "string", Card: "repeated"}),
				mockProbe("pmockoptstr", "mock-optional-string", &spec.Field{Name: "nick", Number: 1, Kind: "string", Card: "optional"}),
				mockProbe("pmockoneof", "mock-oneof-string", &spec.Field{Name: "choice_a", Number: 1, Kind: "string", Oneof: "choice"}, &spec.Field{Name: "choice_b", Number: 2, Kind: "int64", Oneof: "choice"}),
				mockProbe("pmockts", "mock-timestamp", &spec.Field{Name: "at", Number: 1, Kind: "message", TypeName: ".google.protobuf.Timestamp"}),
				mockProbe("pmockenummap", "mock-map-of-enum", &spec.Field{Name: "by_key", Number: 1, Kind: "enum", TypeName: ".pmockenummap.v1.Color", Card: "map", MapKey: "string"}),
				mockProbe("pmockmapu32", "mock-map-of-uint32", &spec.Field{Name: "by_key", Number: 1, Kind: "uint32", Card: "map", MapKey: "string"}),
				mockProbe("pmockmapbytes", "mock-map-of-bytes", &spec.Field{Name: "by_key", Number: 1, Kind: "bytes", Card: "map", MapKey: "int32"}),
				mockProbe("pmockmapfloat", "mock-map-of-float", &spec.Field{Name: "by_key", Number: 1, Kind: "float", Card: "map", MapKey: "bool"}),
				mockProbe("pmockmapmsg", "mock-map-of-message", &spec.Field{Name: "by_key", Number: 1, Kind: "message", TypeName: ".pmockmapmsg.v1.Leaf", Card: "map", MapKey: "uint64"}),
				mockProbe("pmockoptnum", "mock-optional-numbers", &spec.Field{Name: "a", Number: 1, Kind: "int32", Card: "optional"}, &spec.Field{Name: "b", Number: 2, Kind: "double", Card: "optional"}, &spec.Field{Name: "c", Number: 3, Kind: "bool", Card: "optional"}, &spec.Field{Name: "d", Number: 4, Kind: "uint64", Card: "optional"}),
				mockProbe("pmockrec", "mock-recursive-message", &spec.Field{Name: "root", Number: 1, Kind: "message", TypeName: ".pmockrec.v1.Node"}),
				mockProbe("pmockrepmsg", "mock-repeated-message", &spec.Field{Name: "items", Number: 1, Kind: "message", TypeName: ".pmockrepmsg.v1.Leaf", Card: "repeated"}),
				twoPkgWorld(20601, "pmock2pkg", true),
				mockProbe("pmockmaxlen", "mock-string-with-max-len-and-non-ascii-examples",
					&spec.Field{Name: "display_name", Number: 1, Kind: "string", Examples: []string{"ééé", "abc"}, Rules: &spec.Rules{MaxLen: u64p(3)}},
					&spec.Field{Name: "city", Number: 2, Kind: "string", Examples: []string{"Zürich", "Saarbrücken"}, Rules: &spec.Rules{MaxLen: u64p(11)}},
					&spec.Field{Name: "code", Number: 3, Kind: "string", Examples: []string{"日本", "ab"}, Rules: &spec.Rules{MaxLen: u64p(2)}}),
			}
		},
		rule: "plans = 1-4 interleaved Go-client calls against the generated server backed by NewMock<Svc>Server(), with the mock's rand.Intn results, crypto/rand outcome (incl. failure) and clock supplied by the plan; oracle = the mock answers a valid request without error, the server serialises it (JSON and protobuf), the client decodes an equal message, and every response field whose examples all parse to its type holds one of them; distinct_nontrivial counts distinct (world, rpc, codec, examples?, crypto failure?, outcome) tuples. Conformance to the OpenAPI response schema is not decided here",
		technique: "deterministic simulation: seam on the generated mock's randomness/clock (plan-supplied), repeated and interleaved invocations through the simulated link",
		stubs:     []string{"math/rand, crypto/rand, time.Now inside the generated mock (scratch copy) routed to the plan"},
	}
	props["C15"] = &propCfg{
		id: "C15", level: "exploration", design: "DESIGN.md §4 C15", custom: c15Check, customReplay: c15Replay,
		rule: "per seeded two-file world and per plugin configuration (go-http, go-http+mock, go-client, openapi yaml/json, ts-client, ts-server): canonical run of the freshly built plugin vs variants = plain reruns under GOMAXPROCS 1/16, the seamed build (every range-over-map in /repo/internal and /repo/cmd iterating in a seed-derived permutation; seed 0 = sorted) under K map seeds, simulated clock values, permuted file_to_generate, permuted proto_file, single-file vs multi-file invocation, other file absent, unrelated extra file, parameter spellings, mock on/off; distinct_nontrivial counts distinct (world, plugin configuration, variant kind) triples whose outputs were compared byte for byte",
		technique: "deterministic simulation of the generators' only nondeterminism sources: seeded map-iteration order and clock via a source-level seam in a scratch build, plus request-shape perturbation; byte comparison with the canonical run",
		real:      []string{"all five plugin binaries, original and seamed builds of the same tree"},
		stubs:     []string{"map iteration order and time.Now inside /repo/internal and /repo/cmd (seamed); third-party libraries unseamed"},
	}
}

func getProp(id string) (*propCfg, error) {
	p := props[id]
	if p == nil {
		return nil, fmt.Errorf("property %s has no check (not applicable or unknown)", id)
	}
	return p, nil
}

func (p *propCfg) tier(t string) tierCfg {
	if t == "thorough" {
		return p.thor
	}
	return p.quick
}

// worldsFor returns the seeded worlds plus probes for a check.
func (p *propCfg) worldsFor(seed int64, tier string) []*spec.World {
	tc := p.tier(tier)
	var ws []*spec.World
	for i := 0; i < tc.worlds; i++ {
		s := gen.Mix(uint64(seed), uint64(i)+1000*uint64(len(p.id))+uint64(p.id[1]-'0')*77+uint64(p.id[2]-'0'))
		name := fmt.Sprintf("w%s%03d", lower(p.id), i)
		cfg := p.genCfg(s, name)
		cfg.Mock = cfg.Mock || p.mock
		ws = append(ws, gen.World(cfg))
	}
	if p.probes != nil {
		ws = append(ws, p.probes()...)
	}
	return ws
}

func lower(s string) string {
	b := []byte(s)
	for i, c := range b {
		if c >= 'A' && c <= 'Z' {
			b[i] = c + 32
		}
	}
	return string(b)
}

// mockProbe builds a minimal world for one response-field shape of the mock generator.
// twoPkgWorld: two service files generated in ONE plugin invocation into two Go packages that
// have the same package name (the usual versioned layout: .../users/v1 and .../orders/v1 are
// both "package v1"). Everything the generators memoise per package name, per file or per
// invocation is shared or not shared between the two in a way single-file worlds never show.
func twoPkgWorld(seed uint64, name string, mock bool) *spec.World {
	allow := safeAllow()
	if mock {
		allow[gen.FExamples] = true
	}
	a := gen.World(gen.Config{Seed: gen.Mix(seed, 1), Name: name, Allow: allow, Mock: mock, MockSafe: mock, Force: []string{gen.FExamples}})
	b := gen.World(gen.Config{Seed: gen.Mix(seed, 2), Name: name + "b", Allow: allow, AltNames: true, Mock: mock, MockSafe: mock, Force: []string{gen.FExamples}})
	a.Files[0].GoPackage = "verifworld/" + name + "/users/v1;v1"
	fb := b.Files[0]
	fb.Path = name + "/orders.proto"
	fb.GoPackage = "verifworld/" + name + "/orders/v1;v1"
	for _, s := range fb.Services {
		// keep the two files' routes apart on the one mux
		bp := "/orders"
		if s.BasePath != nil {
			bp += "/" + strings.Trim(*s.BasePath, "/")
		}
		s.BasePath = &bp
	}
	a.Files = append(a.Files, fb)
	a.Features = append(a.Features, "two_go_packages_with_one_package_name")
	a.Probe = "two-go-packages-one-package-name"
	return a
}

func u64p(v uint64) *uint64 { return &v }

func mockProbe(name, label string, fields ...*spec.Field) *spec.World {
	pkg := name + ".v1"
	resp := &spec.Message{Name: "ProbeResponse", Fields: fields}
	for _, f := range fields {
		if f.Oneof != "" {
			resp.Oneofs = []*spec.Oneof{{Name: f.Oneof}}
		}
	}
	f := &spec.File{Path: name + "/svc.proto", Package: pkg, GoPackage: "verifworld/" + name + "/pb;pb",
		Enums: []*spec.Enum{{Name: "Color", Values: []*spec.EnumValue{{Name: "COLOR_UNSPECIFIED", Number: 0}, {Name: "COLOR_RED", Number: 1}}}},
		Messages: []*spec.Message{
			{Name: "ProbeRequest", Fields: []*spec.Field{{Name: "q", Number: 1, Kind: "string"}}},
			resp,
			{Name: "Leaf", Fields: []*spec.Field{{Name: "title", Number: 1, Kind: "string"}}},
			{Name: "Node", Fields: []*spec.Field{{Name: "name", Number: 1, Kind: "string"}, {Name: "next", Number: 2, Kind: "message", TypeName: "." + pkg + ".Node"}}},
		},
		Services: []*spec.Service{{Name: "Probe", Methods: []*spec.Method{{Name: "Run", In: "." + pkg + ".ProbeRequest", Out: "." + pkg + ".ProbeResponse", HasConfig: true, Path: "/run", Verb: "POST"}}}},
	}
	return &spec.World{Name: name, Files: []*spec.File{f}, Mock: true, Probe: label, Features: []string{"mock_probe"}}
}
