package main

import (
	"fmt"
	"os"
	"path/filepath"
	"time"

	"verif/harness/world"
	"verif/simrt/spec"
)

// runReplay rebuilds the world of a replay file from the current /repo tree and
// re-executes the recorded plan (or re-checks boot admission) in a fresh process.
func runReplay(path string) int {
	rf, w, err := loadReplay(path)
	if err != nil {
		return fail2("loading replay: %v", err)
	}
	pc, err := getProp(rf.Property)
	if err != nil {
		return fail2("%v", err)
	}
	if pc.customReplay != nil {
		return pc.customReplay(pc, rf, w)
	}
	fmt.Printf("replay property=%s class=%s signature=%s recorded_tree=%s current_tree=%s\n", rf.Property, rf.Class, rf.Signature, rf.RepoTree, repoTreeHash())
	b, err := world.NewBatch([]*spec.World{w}, world.Options{Passes: pc.passes, SkipTS: !pc.needTS})
	if b != nil {
		defer b.Close()
	}
	if err != nil {
		return fail2("%v", err)
	}
	if pc.needTS {
		world.AdmitTS(b)
	}
	bw := b.Worlds[0]
	if bw.Refused != "" {
		fmt.Printf("world refused by a plugin: %s\n", bw.Refused)
		return 0
	}
	if bw.BootErr != "" {
		sig := bootSignature(rf.Property, w, bw.BootErr)
		fmt.Printf("boot failure: %s\nsignature=%s\n", bw.BootErr, sig)
		if rf.Class == "boot" {
			fmt.Printf("VIOLATION property=%s replay=%s\n", rf.Property, path)
			return 1
		}
		return fail2("world of a non-boot replay no longer boots")
	}
	if rf.Class == "boot" {
		fmt.Println("world boots now: boot failure not reproduced")
		return 0
	}
	scratch, _ := os.MkdirTemp("", "verif-replay-")
	defer os.RemoveAll(scratch)
	pf := filepath.Join(scratch, "plan.json")
	_ = os.WriteFile(pf, fixPlanWorld(rf.Plan, w.Name), 0o644)
	j := &job{world: bw, mode: planMode(rf.Plan), plan: pf, out: filepath.Join(scratch, "res.json")}
	runJob(b, rf.Property, j, nil, append(pc.extraEnv(b), "VERIF_KEEPLOG=1"), 10*time.Minute)
	if j.err != "" {
		return fail2("runner: %s", j.err)
	}
	if len(j.res.Violations) == 0 {
		fmt.Printf("replay clean: no violation (log hash %v)\n", j.res.LogHashes)
		return 0
	}
	for _, v := range j.res.Violations {
		fmt.Printf("class=%s signature=%s\n%s\nlog_hash=%s (recorded %s)\n", v.Class, v.Signature, v.Detail, v.LogHash, rf.LogHash)
		if os.Getenv("VERIF_SHOWLOG") != "" {
			for _, l := range v.Log {
				fmt.Println("  " + l)
			}
		}
	}
	fmt.Printf("VIOLATION property=%s replay=%s\n", rf.Property, path)
	return 1
}

func runSelftest(kind, prop string, seed int64) int { return fail2("selftest not implemented yet") }
