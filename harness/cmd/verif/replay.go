package main

func runReplay(path string) int { return fail2("replay not implemented yet") }

func runSelftest(kind, prop string, seed int64) int { return fail2("selftest not implemented yet") }
