package main

import (
	"fmt"
	"os"
	"os/exec"
	"path/filepath"
	"time"

	"verif/harness/world"
	"verif/simrt/spec"
)

// runReplay rebuilds the world of a replay file from the current /repo tree and
// re-executes the recorded plan (or re-checks boot admission) in a fresh process.
func runReplay(path string) int {
	rf, w, err := loadReplay(path)
	if err != nil {
		return fail2("loading replay: %v", err)
	}
	pc, err := getProp(rf.Property)
	if err != nil {
		return fail2("%v", err)
	}
	if pc.customReplay != nil {
		return pc.customReplay(pc, rf, w)
	}
	fmt.Printf("replay property=%s class=%s signature=%s recorded_tree=%s current_tree=%s\n", rf.Property, rf.Class, rf.Signature, rf.RepoTree, repoTreeHash())
	b, err := world.NewBatch([]*spec.World{w}, world.Options{Passes: pc.passes, SkipTS: !pc.needTS})
	if b != nil {
		defer b.Close()
	}
	if err != nil {
		return fail2("%v", err)
	}
	if pc.needTS {
		world.AdmitTS(b)
	}
	bw := b.Worlds[0]
	if bw.Refused != "" {
		fmt.Printf("world refused by a plugin: %s\n", bw.Refused)
		return 0
	}
	if bw.BootErr != "" {
		sig := bootSignature(rf.Property, w, bw.BootErr)
		fmt.Printf("boot failure: %s\nsignature=%s\n", bw.BootErr, sig)
		if rf.Class == "boot" {
			fmt.Printf("VIOLATION property=%s replay=%s\n", rf.Property, path)
			return 1
		}
		return fail2("world of a non-boot replay no longer boots")
	}
	if rf.Class == "boot" {
		fmt.Println("world boots now: boot failure not reproduced")
		return 0
	}
	scratch, _ := os.MkdirTemp("", "verif-replay-")
	defer os.RemoveAll(scratch)
	if rf.Explore != nil {
		kf := loadKnown()
		var knownSigs []string
		for _, f := range kf.Findings {
			if f.Property == rf.Property && f.Signature != rf.Signature {
				knownSigs = append(knownSigs, f.Signature)
			}
		}
		ej := &job{world: bw, mode: rf.Explore.Mode, checks: rf.Explore.Checks, rseed: rf.Explore.RapidSeed, out: filepath.Join(scratch, "eres.json")}
		runJob(b, rf.Property, ej, knownSigs, pc.extraEnv(b), 20*time.Minute)
		if ej.err != "" {
			return fail2("runner: %s", ej.err)
		}
		for _, v := range ej.res.Violations {
			if v.Signature == rf.Signature {
				fmt.Printf("class=%s signature=%s\n%s\n(exploration replay: rapid seed %d, %d checks)\n", v.Class, v.Signature, v.Detail, rf.Explore.RapidSeed, rf.Explore.Checks)
				fmt.Printf("VIOLATION property=%s replay=%s\n", rf.Property, path)
				return 1
			}
		}
		fmt.Println("replay clean: the seeded exploration no longer reports this violation")
		return 0
	}
	pf := filepath.Join(scratch, "plan.json")
	_ = os.WriteFile(pf, fixPlanWorld(rf.Plan, w.Name), 0o644)
	j := &job{world: bw, mode: planMode(rf.Plan), plan: pf, out: filepath.Join(scratch, "res.json")}
	runJob(b, rf.Property, j, nil, append(pc.extraEnv(b), "VERIF_KEEPLOG=1"), 10*time.Minute)
	if j.err != "" {
		return fail2("runner: %s", j.err)
	}
	if len(j.res.Violations) == 0 {
		fmt.Printf("replay clean: no violation (log hash %v)\n", j.res.LogHashes)
		return 0
	}
	for _, v := range j.res.Violations {
		fmt.Printf("class=%s signature=%s\n%s\nlog_hash=%s (recorded %s)\n", v.Class, v.Signature, v.Detail, v.LogHash, rf.LogHash)
		if os.Getenv("VERIF_SHOWLOG") != "" {
			for _, l := range v.Log {
				fmt.Println("  " + l)
			}
		}
	}
	fmt.Printf("VIOLATION property=%s replay=%s\n", rf.Property, path)
	return 1
}

// runSelftest: determinism self-test. The same (world, mode, rapid seed) is executed in
// several fresh OS processes under GOMAXPROCS 1, 4 and 16 (the Node bridge restarted each
// time); the per-run event-log hashes must be identical lists.
func runSelftest(kind, prop string, seed int64) int {
	if kind != "determinism" {
		return fail2("unknown selftest %q", kind)
	}
	propsToTest := []string{prop}
	if prop == "all" {
		propsToTest = []string{"C01", "C02", "C03", "C08", "C09", "C10", "C11", "C17", "C20"}
	}
	nSeeds := 12
	if v := os.Getenv("VERIF_SELFTEST_SEEDS"); v != "" {
		fmt.Sscan(v, &nSeeds)
	}
	total, diverged, crossBuild := 0, 0, 0
	for _, id := range propsToTest {
		pc, err := getProp(id)
		if err != nil || pc.custom != nil {
			continue
		}
		worlds := pc.worldsFor(seed, "quick")
		if len(worlds) > 3 {
			worlds = worlds[:3]
		}
		b, err := world.NewBatch(worlds, world.Options{Passes: pc.passes, SkipTS: !pc.needTS})
		if err != nil {
			if b != nil {
				b.Close()
			}
			return fail2("%v", err)
		}
		if pc.needTS {
			world.AdmitTS(b)
		}
		scratch, _ := os.MkdirTemp("", "verif-selftest-")
		var jobs []*job
		type key struct {
			w, mode string
			rs      uint64
		}
		byKey := map[key][]*job{}
		for _, bw := range b.Live() {
			for _, mode := range pc.modes {
				for s := 0; s < nSeeds; s++ {
					rs := uint64(1000 + 97*s + int(seed))
					for rep, procs := range []string{"1", "4", "16", "1"} {
						j := &job{world: bw, mode: mode, checks: 20, rseed: rs, procs: procs,
							out: filepath.Join(scratch, fmt.Sprintf("%s-%s-%d-%d.json", bw.Spec.Name, mode, s, rep))}
						jobs = append(jobs, j)
						k := key{bw.Spec.Name, mode, rs}
						byKey[k] = append(byKey[k], j)
					}
				}
			}
		}
		kf := loadKnown()
		var knownSigs []string
		for _, f := range kf.Findings {
			if f.Property == id {
				knownSigs = append(knownSigs, f.Signature)
			}
		}
		runJobs(b, id, jobs, knownSigs, append(pc.extraEnv(b), "VERIF_LOGHASHES=1"), 16, 10*time.Minute)
		for k, js := range byKey {
			total++
			ref := ""
			for _, j := range js {
				if j.res == nil {
					fmt.Printf("selftest: %s %v: runner failed: %s\n", id, k, j.err)
					diverged++
					break
				}
				h := fmt.Sprint(j.res.LogHashes)
				if ref == "" {
					ref = h
				} else if h != ref {
					fmt.Printf("selftest: DIVERGENCE property=%s world=%s mode=%s rapid_seed=%d (GOMAXPROCS %s): event-log hashes differ\n", id, k.w, k.mode, k.rs, j.procs)
					diverged++
					break
				}
			}
		}
		// Cross-build: the same cases of the first world in a runner binary built for that world
		// alone (as ./verif replay builds it) must give the same event-log hashes as in the
		// batch binary: anything that depends on the binary (protobuf's detrand) shows up here.
		if live := b.Live(); len(live) > 0 {
			first := live[0].Spec
			sb, err := world.NewBatch([]*spec.World{first}, world.Options{Passes: pc.passes, SkipTS: !pc.needTS})
			if err == nil {
				if pc.needTS {
					world.AdmitTS(sb)
				}
				var sjobs []*job
				skey := map[*job]key{}
				for _, bw := range sb.Live() {
					for _, mode := range pc.modes {
						for s := 0; s < nSeeds; s++ {
							rs := uint64(1000 + 97*s + int(seed))
							j := &job{world: bw, mode: mode, checks: 20, rseed: rs, procs: "1",
								out: filepath.Join(scratch, fmt.Sprintf("x-%s-%s-%d.json", bw.Spec.Name, mode, s))}
							sjobs = append(sjobs, j)
							skey[j] = key{bw.Spec.Name, mode, rs}
						}
					}
				}
				runJobs(sb, id, sjobs, knownSigs, append(pc.extraEnv(sb), "VERIF_LOGHASHES=1"), 16, 10*time.Minute)
				for _, j := range sjobs {
					k := skey[j]
					ref := byKey[k]
					if len(ref) == 0 || ref[0].res == nil {
						continue
					}
					total++
					crossBuild++
					if j.res == nil || fmt.Sprint(j.res.LogHashes) != fmt.Sprint(ref[0].res.LogHashes) {
						fmt.Printf("selftest: DIVERGENCE (cross-build) property=%s world=%s mode=%s rapid_seed=%d: batch binary and single-world binary give different event logs\n", id, k.w, k.mode, k.rs)
						diverged++
					}
				}
			}
			if sb != nil {
				sb.Close()
			}
		}
		b.Close()
		os.RemoveAll(scratch)
		fmt.Printf("selftest determinism: property=%s cases=%d (x4 processes each, GOMAXPROCS 1/4/16/1), cross-build cases so far=%d\n", id, len(byKey), crossBuild)
	}
	// sources of nondeterminism that must not appear in the harness runtime
	out, _ := exec.Command("grep", "-rn", "--include=*.go", `\.Range(`, filepath.Join(world.VerifDir, "simrt")).CombinedOutput()
	fmt.Printf("selftest: .Range( occurrences in simrt (protoreflect Range over messages/maps is order-insensitive in its uses):\n%s", out)
	fmt.Printf("selftest determinism: %d cases, %d diverged\n", total, diverged)
	if diverged > 0 {
		return 1
	}
	return 0
}
