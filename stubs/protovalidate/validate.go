// Package protovalidate is a STUB of buf.build/go/protovalidate used only by the
// verification harness (the real module and cel-go are not available offline).
// It interprets a subset of buf.validate field rules by reflection over the
// FieldRules message: required; per-kind const/in/not_in/gt/gte/lt/lte;
// string len/min_len/max_len/pattern/prefix/suffix/contains; bytes len bounds;
// repeated min_items/max_items/unique (+ items rules); map min_pairs/max_pairs;
// recursion into message, repeated-message and map-of-message fields.
// Field paths are reported outermost-first, like the real library.
package protovalidate

import (
	"fmt"
	"regexp"
	"sort"
	"strings"
	"unicode/utf8"

	validate "buf.build/gen/go/bufbuild/protovalidate/protocolbuffers/go/buf/validate"
	"google.golang.org/protobuf/proto"
	"google.golang.org/protobuf/reflect/protoreflect"
)

// Violation mirrors the real library's type as far as generated sebuf code uses it.
type Violation struct {
	Proto *validate.Violation
}

// ValidationError mirrors the real library's error type.
type ValidationError struct {
	Violations []*Violation
}

func (e *ValidationError) Error() string {
	var sb strings.Builder
	sb.WriteString("validation error:")
	for _, v := range e.Violations {
		sb.WriteString("\n - ")
		sb.WriteString(pathString(v.Proto.GetField()))
		sb.WriteString(": ")
		sb.WriteString(v.Proto.GetMessage())
	}
	return sb.String()
}

func pathString(p *validate.FieldPath) string {
	var parts []string
	for _, e := range p.GetElements() {
		parts = append(parts, e.GetFieldName())
	}
	return strings.Join(parts, ".")
}

// Validator mirrors the real library's interface.
type Validator interface {
	Validate(msg proto.Message, options ...ValidationOption) error
}

// ValidatorOption / ValidationOption exist for signature compatibility.
type ValidatorOption interface{ isValidatorOption() }
type ValidationOption interface{ isValidationOption() }

// NewHook, when non-nil, is consulted by New (lets the simulator inject a
// construction failure or observe construction). Off by default.
var NewHook func() error

// New returns the stub validator.
func New(options ...ValidatorOption) (Validator, error) {
	if NewHook != nil {
		if err := NewHook(); err != nil {
			return nil, err
		}
	}
	return &stub{}, nil
}

type stub struct{}

func (s *stub) Validate(msg proto.Message, _ ...ValidationOption) error {
	if msg == nil {
		return nil
	}
	var out []*Violation
	walk(msg.ProtoReflect(), nil, &out, 0)
	if len(out) == 0 {
		return nil
	}
	return &ValidationError{Violations: out}
}

type pathElem struct {
	fd  protoreflect.FieldDescriptor
	sub string
}

func mkPath(path []pathElem) *validate.FieldPath {
	fp := &validate.FieldPath{}
	for _, e := range path {
		name := string(e.fd.Name())
		num := int32(e.fd.Number())
		fp.Elements = append(fp.Elements, &validate.FieldPathElement{FieldName: &name, FieldNumber: &num})
	}
	return fp
}

func add(out *[]*Violation, path []pathElem, rule, msg string) {
	r, m := rule, msg
	*out = append(*out, &Violation{Proto: &validate.Violation{Field: mkPath(path), RuleId: &r, Message: &m}})
}

func fieldRules(fd protoreflect.FieldDescriptor) *validate.FieldRules {
	opts := fd.Options()
	if opts == nil {
		return nil
	}
	if !proto.HasExtension(opts, validate.E_Field) {
		return nil
	}
	fr, _ := proto.GetExtension(opts, validate.E_Field).(*validate.FieldRules)
	return fr
}

func walk(m protoreflect.Message, path []pathElem, out *[]*Violation, depth int) {
	if depth > 64 {
		return
	}
	fds := m.Descriptor().Fields()
	for i := 0; i < fds.Len(); i++ {
		fd := fds.Get(i)
		p := append(append([]pathElem{}, path...), pathElem{fd: fd})
		fr := fieldRules(fd)
		has := m.Has(fd)
		if fr != nil {
			if fr.GetRequired() && !has {
				add(out, p, "required", "value is required")
				continue
			}
			if !has && fd.HasPresence() {
				// unset optional/message field: rules do not apply
				continue
			}
			if !has && fr.GetIgnore() != validate.Ignore_IGNORE_UNSPECIFIED {
				continue
			}
			checkField(fd, m.Get(fd), fr, p, out)
		}
		if !has {
			continue
		}
		// recursion
		switch {
		case fd.IsMap():
			if fd.MapValue().Kind() == protoreflect.MessageKind {
				mp := m.Get(fd).Map()
				var keys []protoreflect.MapKey
				mp.Range(func(k protoreflect.MapKey, _ protoreflect.Value) bool { keys = append(keys, k); return true })
				sort.Slice(keys, func(a, b int) bool { return keys[a].String() < keys[b].String() })
				for _, k := range keys {
					walk(mp.Get(k).Message(), p, out, depth+1)
				}
			}
		case fd.IsList():
			if fd.Kind() == protoreflect.MessageKind {
				l := m.Get(fd).List()
				for j := 0; j < l.Len(); j++ {
					walk(l.Get(j).Message(), p, out, depth+1)
				}
			}
		case fd.Kind() == protoreflect.MessageKind:
			walk(m.Get(fd).Message(), p, out, depth+1)
		}
	}
}

func checkField(fd protoreflect.FieldDescriptor, v protoreflect.Value, fr *validate.FieldRules, p []pathElem, out *[]*Violation) {
	rm := fr.ProtoReflect()
	od := rm.Descriptor().Oneofs().ByName("type")
	if od == nil {
		return
	}
	which := rm.WhichOneof(od)
	if which == nil {
		return
	}
	rules := rm.Get(which).Message()
	switch string(which.Name()) {
	case "repeated":
		if !fd.IsList() {
			return
		}
		l := v.List()
		n := uint64(l.Len())
		if x, ok := getUint(rules, "min_items"); ok && n < x {
			add(out, p, "repeated.min_items", fmt.Sprintf("value must contain at least %d item(s)", x))
		}
		if x, ok := getUint(rules, "max_items"); ok && n > x {
			add(out, p, "repeated.max_items", fmt.Sprintf("value must contain no more than %d item(s)", x))
		}
		if b, ok := getBool(rules, "unique"); ok && b && fd.Kind() != protoreflect.MessageKind {
			seen := map[string]bool{}
			for j := 0; j < l.Len(); j++ {
				k := scalarKey(fd, l.Get(j))
				if seen[k] {
					add(out, p, "repeated.unique", "repeated value must contain unique items")
					break
				}
				seen[k] = true
			}
		}
		if ifd := rules.Descriptor().Fields().ByName("items"); ifd != nil && rules.Has(ifd) {
			ir, _ := rules.Get(ifd).Message().Interface().(*validate.FieldRules)
			if ir != nil && fd.Kind() != protoreflect.MessageKind {
				for j := 0; j < l.Len(); j++ {
					checkScalar(fd, l.Get(j), ir, p, out)
				}
			}
		}
	case "map":
		if !fd.IsMap() {
			return
		}
		n := uint64(v.Map().Len())
		if x, ok := getUint(rules, "min_pairs"); ok && n < x {
			add(out, p, "map.min_pairs", fmt.Sprintf("map must be at least %d entries", x))
		}
		if x, ok := getUint(rules, "max_pairs"); ok && n > x {
			add(out, p, "map.max_pairs", fmt.Sprintf("map must be at most %d entries", x))
		}
	default:
		if fd.IsList() || fd.IsMap() {
			return
		}
		checkScalar(fd, v, fr, p, out)
	}
}

func scalarKey(fd protoreflect.FieldDescriptor, v protoreflect.Value) string {
	if fd.Kind() == protoreflect.BytesKind {
		return string(v.Bytes())
	}
	return v.String()
}

func getUint(m protoreflect.Message, name string) (uint64, bool) {
	fd := m.Descriptor().Fields().ByName(protoreflect.Name(name))
	if fd == nil || !m.Has(fd) {
		return 0, false
	}
	return m.Get(fd).Uint(), true
}

func getBool(m protoreflect.Message, name string) (bool, bool) {
	fd := m.Descriptor().Fields().ByName(protoreflect.Name(name))
	if fd == nil || !m.Has(fd) {
		return false, false
	}
	return m.Get(fd).Bool(), true
}

func getStr(m protoreflect.Message, name string) (string, bool) {
	fd := m.Descriptor().Fields().ByName(protoreflect.Name(name))
	if fd == nil || !m.Has(fd) {
		return "", false
	}
	return m.Get(fd).String(), true
}

// cmp compares two scalar values of the same rule kind; returns -1,0,1 and ok.
func cmp(kind protoreflect.Kind, a, b protoreflect.Value) (int, bool) {
	switch kind {
	case protoreflect.Int32Kind, protoreflect.Sint32Kind, protoreflect.Sfixed32Kind,
		protoreflect.Int64Kind, protoreflect.Sint64Kind, protoreflect.Sfixed64Kind:
		x, y := a.Int(), b.Int()
		switch {
		case x < y:
			return -1, true
		case x > y:
			return 1, true
		}
		return 0, true
	case protoreflect.Uint32Kind, protoreflect.Fixed32Kind, protoreflect.Uint64Kind, protoreflect.Fixed64Kind:
		x, y := a.Uint(), b.Uint()
		switch {
		case x < y:
			return -1, true
		case x > y:
			return 1, true
		}
		return 0, true
	case protoreflect.FloatKind, protoreflect.DoubleKind:
		x, y := a.Float(), b.Float()
		if x != x || y != y {
			return 0, false
		}
		switch {
		case x < y:
			return -1, true
		case x > y:
			return 1, true
		}
		return 0, true
	}
	return 0, false
}

func checkScalar(fd protoreflect.FieldDescriptor, v protoreflect.Value, fr *validate.FieldRules, p []pathElem, out *[]*Violation) {
	rm := fr.ProtoReflect()
	od := rm.Descriptor().Oneofs().ByName("type")
	which := rm.WhichOneof(od)
	if which == nil {
		return
	}
	rules := rm.Get(which).Message()
	rname := string(which.Name())
	rfds := rules.Descriptor().Fields()
	kind := fd.Kind()
	switch kind {
	case protoreflect.StringKind:
		if rname != "string" {
			return
		}
		s := v.String()
		n := uint64(utf8.RuneCountInString(s))
		if x, ok := getUint(rules, "len"); ok && n != x {
			add(out, p, "string.len", fmt.Sprintf("value length must be %d characters", x))
		}
		if x, ok := getUint(rules, "min_len"); ok && n < x {
			add(out, p, "string.min_len", fmt.Sprintf("value length must be at least %d characters", x))
		}
		if x, ok := getUint(rules, "max_len"); ok && n > x {
			add(out, p, "string.max_len", fmt.Sprintf("value length must be at most %d characters", x))
		}
		if x, ok := getStr(rules, "const"); ok && s != x {
			add(out, p, "string.const", fmt.Sprintf("value must equal `%s`", x))
		}
		if x, ok := getStr(rules, "prefix"); ok && !strings.HasPrefix(s, x) {
			add(out, p, "string.prefix", "value does not have prefix")
		}
		if x, ok := getStr(rules, "suffix"); ok && !strings.HasSuffix(s, x) {
			add(out, p, "string.suffix", "value does not have suffix")
		}
		if x, ok := getStr(rules, "contains"); ok && !strings.Contains(s, x) {
			add(out, p, "string.contains", "value does not contain substring")
		}
		if x, ok := getStr(rules, "pattern"); ok {
			if re, err := regexp.Compile(x); err == nil && !re.MatchString(s) {
				add(out, p, "string.pattern", fmt.Sprintf("value does not match regex pattern `%s`", x))
			}
		}
		if f := rfds.ByName("in"); f != nil && rules.Get(f).List().Len() > 0 {
			l := rules.Get(f).List()
			found := false
			for i := 0; i < l.Len(); i++ {
				if l.Get(i).String() == s {
					found = true
				}
			}
			if !found {
				add(out, p, "string.in", "value must be in list")
			}
		}
		if f := rfds.ByName("not_in"); f != nil {
			l := rules.Get(f).List()
			for i := 0; i < l.Len(); i++ {
				if l.Get(i).String() == s {
					add(out, p, "string.not_in", "value must not be in list")
					break
				}
			}
		}
	case protoreflect.BytesKind:
		if rname != "bytes" {
			return
		}
		n := uint64(len(v.Bytes()))
		if x, ok := getUint(rules, "len"); ok && n != x {
			add(out, p, "bytes.len", fmt.Sprintf("value length must be %d bytes", x))
		}
		if x, ok := getUint(rules, "min_len"); ok && n < x {
			add(out, p, "bytes.min_len", fmt.Sprintf("value length must be at least %d bytes", x))
		}
		if x, ok := getUint(rules, "max_len"); ok && n > x {
			add(out, p, "bytes.max_len", fmt.Sprintf("value must be at most %d bytes", x))
		}
	case protoreflect.BoolKind:
		if rname != "bool" {
			return
		}
		if x, ok := getBool(rules, "const"); ok && v.Bool() != x {
			add(out, p, "bool.const", fmt.Sprintf("value must equal %v", x))
		}
	case protoreflect.EnumKind:
		if rname != "enum" {
			return
		}
		n := int32(v.Enum())
		if f := rfds.ByName("const"); f != nil && rules.Has(f) && int32(rules.Get(f).Int()) != n {
			add(out, p, "enum.const", "value must equal const")
		}
		if b, ok := getBool(rules, "defined_only"); ok && b && fd.Enum().Values().ByNumber(protoreflect.EnumNumber(n)) == nil {
			add(out, p, "enum.defined_only", "value must be one of the defined enum values")
		}
		if f := rfds.ByName("in"); f != nil && rules.Get(f).List().Len() > 0 {
			l := rules.Get(f).List()
			found := false
			for i := 0; i < l.Len(); i++ {
				if int32(l.Get(i).Int()) == n {
					found = true
				}
			}
			if !found {
				add(out, p, "enum.in", "value must be in list")
			}
		}
	case protoreflect.MessageKind, protoreflect.GroupKind:
		return
	default:
		// numeric kinds: the rule oneof member is named after the kind
		if rname != kindRuleName(kind) {
			return
		}
		for _, op := range []string{"const", "lt", "lte", "gt", "gte"} {
			f := rfds.ByName(protoreflect.Name(op))
			if f == nil || !rules.Has(f) {
				continue
			}
			c, ok := cmp(kind, v, rules.Get(f))
			bound := rules.Get(f).String()
			if !ok {
				add(out, p, rname+"."+op, "value is NaN")
				continue
			}
			switch op {
			case "const":
				if c != 0 {
					add(out, p, rname+".const", "value must equal "+bound)
				}
			case "lt":
				if c >= 0 {
					add(out, p, rname+".lt", "value must be less than "+bound)
				}
			case "lte":
				if c > 0 {
					add(out, p, rname+".lte", "value must be less than or equal to "+bound)
				}
			case "gt":
				if c <= 0 {
					add(out, p, rname+".gt", "value must be greater than "+bound)
				}
			case "gte":
				if c < 0 {
					add(out, p, rname+".gte", "value must be greater than or equal to "+bound)
				}
			}
		}
		if f := rfds.ByName("in"); f != nil && rules.Get(f).List().Len() > 0 {
			l := rules.Get(f).List()
			found := false
			for i := 0; i < l.Len(); i++ {
				if c, ok := cmp(kind, v, l.Get(i)); ok && c == 0 {
					found = true
				}
			}
			if !found {
				add(out, p, rname+".in", "value must be in list")
			}
		}
		if f := rfds.ByName("not_in"); f != nil {
			l := rules.Get(f).List()
			for i := 0; i < l.Len(); i++ {
				if c, ok := cmp(kind, v, l.Get(i)); ok && c == 0 {
					add(out, p, rname+".not_in", "value must not be in list")
					break
				}
			}
		}
	}
}

func kindRuleName(k protoreflect.Kind) string {
	switch k {
	case protoreflect.FloatKind:
		return "float"
	case protoreflect.DoubleKind:
		return "double"
	case protoreflect.Int32Kind:
		return "int32"
	case protoreflect.Int64Kind:
		return "int64"
	case protoreflect.Uint32Kind:
		return "uint32"
	case protoreflect.Uint64Kind:
		return "uint64"
	case protoreflect.Sint32Kind:
		return "sint32"
	case protoreflect.Sint64Kind:
		return "sint64"
	case protoreflect.Fixed32Kind:
		return "fixed32"
	case protoreflect.Fixed64Kind:
		return "fixed64"
	case protoreflect.Sfixed32Kind:
		return "sfixed32"
	case protoreflect.Sfixed64Kind:
		return "sfixed64"
	}
	return ""
}
