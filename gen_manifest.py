#!/usr/bin/env python3
# Regenerates MANIFEST.json from the table below (keeps the file valid and current).
import json
claimed = {
 "C01": ("exploration", "DESIGN.md §4 C01",
   "Seeded search over schemas x values x content types x benign network schedules on a simulated HTTP link (real net/http codecs, real generated client and server); every call is checked by the delivery oracle (handler-seen request == caller's, caller-seen response == handler's). The simulated server frames responses as net/http does (chunked transfer encoding beyond 2 KiB), some plans carry 2-20 KB responses, and some put the servers behind a gateway that serves them under a path prefix. Sampling, not proof; right level because the property quantifies over programs and inputs jointly and only fails on particular combinations.",
   "deterministic simulation: seeded schedules + fragmentation over a simulated HTTP link, per-call delivery oracle"),
 "C11": ("fault_enumeration", "DESIGN.md §4 C11",
   "Fault injection inside in-flight messages (truncate/reset/stall at drawn offsets, dup, drop, write error, mutated bodies under 9 content types, rogue upstream responses, virtual-clock deadlines) plus sweeps that enumerate every truncation and reset offset of the sampled bodies; oracles: never panic/5xx/hang, never dispatch from an incompletely delivered or undecodable body, 400s are well-formed, clients return by their deadline. A fourth mode runs the generated TS client (Node 22, lock-step bridge) against rogue peers and response-direction faults: every call settles, the Node process never meets an unhandled rejection or uncaught exception, and success is only reported for a complete 2xx JSON response.",
   "deterministic simulation with fault injection on the simulated link + single-fault offset enumeration"),
 "C15": ("exploration", "DESIGN.md §4 C15",
   "The generators' nondeterminism sources (map iteration order, clock) are put behind a source-level seam in a scratch build and driven from the seed; outputs of reruns, seamed runs and perturbed request shapes (file order, file-to-generate subsets, dependent files generated in one run or in separate runs, several services per plugin process) are compared byte for byte with the canonical run of the freshly built plugins; identical reruns must also list the files in the same order. Real parallelism inside a plugin (a go statement) is not seamed and is covered by repetition under GOMAXPROCS 1/4/16 only.",
   "seeded map-order / clock seam in a scratch build of the generators + request-shape perturbation, byte comparison"),
 "C17": ("exploration", "DESIGN.md §4 C17",
   "Seeded interleavings of 2-10 concurrent calls at I/O points and at access probes inserted into a scratch copy of the generated code; the simulated ResponseWriter yields before every write (slow peer), call-option values and message instances are shared between calls, sync.Pool is seamed (LIFO reuse, hand-off = happens-before edge), every generated function starts with a pre-emption point; three oracles: each call equals the same call executed alone (and a well-formed call is never rejected), no unordered conflicting access (vector-clock happens-before detector), client-visible history linearizable (porcupine). A third mode, coldstart, spends one short-lived runner process per route whose first plans put 2-6 well-formed calls on that one route in flight together, so that lazily built process-wide state is met unbuilt by several requests at once.",
   "deterministic simulation: seeded interleavings + solo-run isolation oracle + vector-clock race detection + porcupine"),
 "C02": ("exploration", "DESIGN.md §4 C02",
   "A contract client (built from the published contract, not from generated client code) emits raw requests for every verb x body shape x codec x URL value class over the simulated link into the Go and TS servers; oracle = reference binding model (URL-bound fields from the URL + body fields, or 400 naming the field and no dispatch).",
   "deterministic simulation: contract client over the simulated link, reference binding model as oracle"),
 "C03": ("exploration", "DESIGN.md §4 C03",
   "Full delivery matrix: three kinds of client (generated Go, generated TS, a client that only knows the emitted OpenAPI document) x two servers (Go, TS) run against each other over the simulated link for every sampled RPC; request lines are compared with each other and with the document, TS route descriptors and parameter placement are cross-checked, exactly one operation per RPC. A second mode, link-faults, lets the first attempt of a call meet a transport failure and requires every further request the client sends for that call to carry the same request line.",
   "deterministic co-simulation: client x server delivery matrix (Go, TS in Node, OpenAPI-driven) + document cross-check"),
 "C08": ("exploration", "DESIGN.md §4 C08",
   "The generated TS modules run unmodified in Node 22 behind a lock-step bridge on the same simulated link as the Go nodes (routes created once per run, request bodies streamed to the route chunk by chunk as the link delivers them); TS->Go, Go->TS and TS->TS calls are checked by the delivery oracle on the contract JSON form, header helper options and AbortSignal included; module load is boot admission.",
   "deterministic co-simulation of generated TS and Go code over the simulated link, delivery oracle"),
 "C09": ("exploration", "DESIGN.md §4 C09",
   "Raw requests with explicit header sets (absent / empty / valid / unambiguously invalid per declared type and format, case variants, service x method merge) and a body that arrives late through an instrumented stream; oracle = reference header model: one violation per offending header, no dispatch, zero body reads before the decision, never rejected for valid headers; Go and TS servers. A second mode builds the header set from the parameter list of the emitted OpenAPI document: a request that satisfies what is published must be dispatched.",
   "deterministic simulation: contract client with raw header sets, delayed instrumented body stream, reference header model"),
 "C10": ("exploration", "DESIGN.md §4 C10",
   "Scripted application-handler and error-hook nodes produce every documented error source; Go, TS and contract clients observe; oracle = the documented table (status, content type mirrors the request, body decodes to the expected message, hook overrides) and the client-side error value. Plans also put the server behind a deadline middleware, register the hook for some services only, let the hook write its body through io.WriteString / io.Copy and send media-type parameters; a second mode runs the Go and TS clients against a peer that answers error statuses with well-formed and damaged bodies.",
   "deterministic simulation: scripted handler/hook nodes, documented error table as oracle, client-side error mapping"),
 "C20": ("exploration", "DESIGN.md §4 C20",
   "The generated mock implementation backs the generated server; its randomness (rand.Intn, crypto/rand incl. failure) and clock are supplied by the plan through a seam in the scratch copy; repeated and interleaved calls; oracle = no error for valid requests, served and decoded equal in JSON and protobuf, example-bearing fields take a parsed example for every random choice; the mock also runs under the access-probe pass so that unsynchronised state in generated mock code is seen by the vector-clock race detector; in some plans every request constructs its own mock inside its handler task; building the mock is boot admission.",
   "deterministic simulation: seam on the generated mock's randomness/clock, repeated interleaved invocations, example-membership oracle"),
}
na = {
 "C04": "pure function of (schema, value): MarshalJSON/UnmarshalJSON round trip has no schedule, clock, peer or fault that could change its truth value; deterministic simulation would only be input generation in costume (DESIGN.md §5)",
 "C05": "conformance of wire JSON to the documented mapping is a pure function of (schema, value) judged against a mapping model; nothing the simulator controls influences it (DESIGN.md §5)",
 "C06": "JSON-Schema validation of bodies against the generated OpenAPI document is a static relation between two artefacts and a value (DESIGN.md §5)",
 "C07": "inhabitation of emitted TypeScript types by wire JSON is a static typing relation; no run-time party, schedule or fault is involved (DESIGN.md §5)",
 "C12": "acceptance or rejection of a definition by a plugin is a pure function of the CodeGeneratorRequest (DESIGN.md §5)",
 "C13": "that the emitted code compiles, vets and loads is a pure function of the schema; build failures met while booting simulated worlds are still reported by the claimed checks (boot admission) but the property itself is not a simulation target (DESIGN.md §5)",
 "C14": "byte identity of two generators' files is a comparison of two pure functions' outputs (DESIGN.md §5)",
 "C16": "termination of a sequential, I/O-free function on a descriptor graph; no timers, peers or schedules whose adversarial choice could cause a hang (DESIGN.md §5)",
 "C18": "well-formedness of one emitted OpenAPI document (references, parameters, ids) is a static property of the document (DESIGN.md §5)",
 "C19": "equivalence of buf.validate rules and OpenAPI keywords is a relation between two acceptance sets, both pure (DESIGN.md §5)",
}
pending = {
}
import sys
extra = json.load(open("manifest_extra.json")) if len(sys.argv) > 1 else {}
checks = []
for pid in sorted(claimed):
    lvl, ref, text, tech = claimed[pid]
    checks.append({
        "property_id": pid,
        "quick_cmd": f"./verif check {pid} quick",
        "thorough_cmd": f"./verif check {pid} thorough",
        "evidence_file": f"/verif/evidence/{pid}.json",
        "replay_cmd_template": "./verif replay {path}",
        "engine": "simrt",
        "level_claimed": {"category": lvl, "text": text, "design_ref": ref},
        "level_note": "Trusted base: the harness itself (schema generator, contract model, kernel, oracles), go1.26.8 testing/synctest as fake clock and quiescence detector, net/http codecs, a stub of protovalidate (rule subset, no CEL), simulated TCP. Sampling: a clean run is evidence, not proof.",
        "technique": tech,
    })
m = {
 "version": 1,
 "setup_cmd": "./setup.sh",
 "hooks": {
   "guard": "verif",
   "enable": "no hooks in /repo: every seam is a public option of the generated code (With<Svc>HTTPClient, WithMux, WithErrorHandler, TS options.fetch / route handlers) or a go/ast source pass applied by the checks to scratch copies made from /repo's working tree (yield+access probes on generated Go, map-order/clock seam on the generators, rand/time seam on the generated mock)",
   "baseline_off_cmd": "cd /repo && go test -vet=off -count=1 ./...",
   "source_commits": [],
   "add_only": True,
 },
 "engines": [
   {"name": "simrt", "path": "/verif/simrt", "serves_properties": sorted(claimed), "kind_free_text": "deterministic simulation kernel on a testing/synctest bubble: seeded baton-passing scheduler, simulated HTTP link with fault injection, virtual clock, rapid-drawn plans with shrinking, replay files"},
   {"name": "harness", "path": "/verif/harness", "serves_properties": sorted(claimed), "kind_free_text": "seeded schema generator, world builder (runs the real plugins built from /repo), glue generator, source passes, driver"},
 ],
 "checks": checks,
 "not_applicable": [{"property_id": k, "reason": v} for k, v in sorted({**na, **pending}.items())],
 "notes": "Technique family: deterministic simulation with fault injection. See DESIGN.md; known findings in known_findings.json.",
}
json.dump(m, open("MANIFEST.json", "w"), indent=1)
print("MANIFEST.json written:", len(checks), "checks,", len(m["not_applicable"]), "not applicable")
