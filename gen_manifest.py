#!/usr/bin/env python3
# Regenerates MANIFEST.json from the table below (keeps the file valid and current).
import json
claimed = {
 "C01": ("exploration", "DESIGN.md §4 C01",
   "Seeded search over schemas x values x content types x benign network schedules on a simulated HTTP link (real net/http codecs, real generated client and server); every call is checked by the delivery oracle (handler-seen request == caller's, caller-seen response == handler's). Sampling, not proof; right level because the property quantifies over programs and inputs jointly and only fails on particular combinations.",
   "deterministic simulation: seeded schedules + fragmentation over a simulated HTTP link, per-call delivery oracle"),
 "C11": ("fault_enumeration", "DESIGN.md §4 C11",
   "Fault injection inside in-flight messages (truncate/reset/stall at drawn offsets, dup, drop, write error, mutated bodies under 9 content types, rogue upstream responses, virtual-clock deadlines) plus sweeps that enumerate every truncation and reset offset of the sampled bodies; oracles: never panic/5xx/hang, never dispatch from an incompletely delivered or undecodable body, 400s are well-formed, clients return by their deadline.",
   "deterministic simulation with fault injection on the simulated link + single-fault offset enumeration"),
 "C15": ("exploration", "DESIGN.md §4 C15",
   "The generators' nondeterminism sources (map iteration order, clock) are put behind a source-level seam in a scratch build and driven from the seed; outputs of reruns, seamed runs and perturbed request shapes are compared byte for byte with the canonical run of the freshly built plugins.",
   "seeded map-order / clock seam in a scratch build of the generators + request-shape perturbation, byte comparison"),
 "C17": ("exploration", "DESIGN.md §4 C17",
   "Seeded interleavings of 2-10 concurrent calls at I/O points and at access probes inserted into a scratch copy of the generated code; three oracles: each call equals the same call executed alone, no unordered conflicting access (vector-clock happens-before detector), client-visible history linearizable (porcupine).",
   "deterministic simulation: seeded interleavings + solo-run isolation oracle + vector-clock race detection + porcupine"),
}
na = {
 "C04": "pure function of (schema, value): MarshalJSON/UnmarshalJSON round trip has no schedule, clock, peer or fault that could change its truth value; deterministic simulation would only be input generation in costume (DESIGN.md §5)",
 "C05": "conformance of wire JSON to the documented mapping is a pure function of (schema, value) judged against a mapping model; nothing the simulator controls influences it (DESIGN.md §5)",
 "C06": "JSON-Schema validation of bodies against the generated OpenAPI document is a static relation between two artefacts and a value (DESIGN.md §5)",
 "C07": "inhabitation of emitted TypeScript types by wire JSON is a static typing relation; no run-time party, schedule or fault is involved (DESIGN.md §5)",
 "C12": "acceptance or rejection of a definition by a plugin is a pure function of the CodeGeneratorRequest (DESIGN.md §5)",
 "C13": "that the emitted code compiles, vets and loads is a pure function of the schema; build failures met while booting simulated worlds are still reported by the claimed checks (boot admission) but the property itself is not a simulation target (DESIGN.md §5)",
 "C14": "byte identity of two generators' files is a comparison of two pure functions' outputs (DESIGN.md §5)",
 "C16": "termination of a sequential, I/O-free function on a descriptor graph; no timers, peers or schedules whose adversarial choice could cause a hang (DESIGN.md §5)",
 "C18": "well-formedness of one emitted OpenAPI document (references, parameters, ids) is a static property of the document (DESIGN.md §5)",
 "C19": "equivalence of buf.validate rules and OpenAPI keywords is a relation between two acceptance sets, both pure (DESIGN.md §5)",
}
pending = {
 "C02": "check under construction in this session (will be claimed: deterministic simulation, contract client)",
 "C03": "check under construction in this session",
 "C08": "check under construction in this session (TS co-simulation bridge)",
 "C09": "check under construction in this session",
 "C10": "check under construction in this session",
 "C20": "check under construction in this session",
}
import sys
extra = json.load(open("manifest_extra.json")) if len(sys.argv) > 1 else {}
checks = []
for pid in sorted(claimed):
    lvl, ref, text, tech = claimed[pid]
    checks.append({
        "property_id": pid,
        "quick_cmd": f"./verif check {pid} quick",
        "thorough_cmd": f"./verif check {pid} thorough",
        "evidence_file": f"/verif/evidence/{pid}.json",
        "replay_cmd_template": "./verif replay {path}",
        "engine": "simrt",
        "level_claimed": {"category": lvl, "text": text, "design_ref": ref},
        "level_note": "Trusted base: the harness itself (schema generator, contract model, kernel, oracles), go1.26.8 testing/synctest as fake clock and quiescence detector, net/http codecs, a stub of protovalidate (rule subset, no CEL), simulated TCP. Sampling: a clean run is evidence, not proof.",
        "technique": tech,
    })
m = {
 "version": 1,
 "setup_cmd": "./setup.sh",
 "hooks": {
   "guard": "verif",
   "enable": "no hooks in /repo: every seam is a public option of the generated code (With<Svc>HTTPClient, WithMux, WithErrorHandler, TS options.fetch / route handlers) or a go/ast source pass applied by the checks to scratch copies made from /repo's working tree (yield+access probes on generated Go, map-order/clock seam on the generators, rand/time seam on the generated mock)",
   "baseline_off_cmd": "cd /repo && go test -vet=off -count=1 ./...",
   "source_commits": [],
   "add_only": True,
 },
 "engines": [
   {"name": "simrt", "path": "/verif/simrt", "serves_properties": sorted(claimed), "kind_free_text": "deterministic simulation kernel on a testing/synctest bubble: seeded baton-passing scheduler, simulated HTTP link with fault injection, virtual clock, rapid-drawn plans with shrinking, replay files"},
   {"name": "harness", "path": "/verif/harness", "serves_properties": sorted(claimed), "kind_free_text": "seeded schema generator, world builder (runs the real plugins built from /repo), glue generator, source passes, driver"},
 ],
 "checks": checks,
 "not_applicable": [{"property_id": k, "reason": v} for k, v in sorted({**na, **pending}.items())],
 "notes": "Technique family: deterministic simulation with fault injection. See DESIGN.md; known findings in known_findings.json.",
}
json.dump(m, open("MANIFEST.json", "w"), indent=1)
print("MANIFEST.json written:", len(checks), "checks,", len(m["not_applicable"]), "not applicable")
