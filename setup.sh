#!/bin/bash
# Build the verification driver offline from files on disk and warm the Go 1.26.8 build cache.
set -euo pipefail
cd "$(dirname "$0")"
export GOFLAGS=-mod=mod GOPROXY=off GOTOOLCHAIN=local GOSUMDB=off GOWORK=off
mkdir -p bin evidence replays
(cd harness && go1.26.8 build -o ../bin/verif ./cmd/verif)
(cd simrt && go1.26.8 build ./... )
(cd stubs/protovalidate && go1.26.8 build ./... )
echo "setup ok: $(./bin/verif 2>&1 | head -1 || true)"
