// Lock-step co-simulation bridge between the Go kernel and generated TypeScript
// clients / servers. One JSON message per line on stdin; every stimulus is answered by
// zero or more event lines followed by {"t":"idle"} once the microtask queue and the
// immediate queue have drained. The kernel decides delivery, faults and order: the
// injected fetch and the application handler are proxies that emit an event and wait
// for the kernel's answer.
import { createInterface } from "node:readline";
import { readdirSync } from "node:fs";
import { join } from "node:path";
import { pathToFileURL } from "node:url";
import { AsyncLocalStorage } from "node:async_hooks";

const out = (o) => process.stdout.write(JSON.stringify(o) + "\n");
// A promise rejected with nobody listening, or an exception thrown outside any promise chain,
// terminates a Node process. Here it is reported to the kernel as an event of the run in which
// it happened (and the process lives on, so the run can be replayed and minimised).
const describeCrash = (e) => (e && e.name ? e.name + ": " : "") + (e && e.message ? e.message : String(e));
process.on("unhandledRejection", (e) => out({ t: "crash", kind: "unhandledRejection", message: describeCrash(e) }));
process.on("uncaughtException", (e) => out({ t: "crash", kind: "uncaughtException", message: describeCrash(e) }));
const worlds = new Map(); // world -> { clients: {Svc: class}, routes: {Svc: factory}, errors: [] }
let pendingFetch = new Map(); // fid -> {resolve, reject}
let pendingHandle = new Map(); // hid -> {resolve, reject}
let controllers = new Map(); // call id -> AbortController
let nextId = 1;
// A server process creates its routes once and serves every request with them: route-level
// state in generated code must be shared between the requests of a run, as it is in
// production. The request a handler invocation belongs to travels in async-local storage.
const als = new AsyncLocalStorage();
let routeCache = new Map(); // world|svc|options -> routes (per run)
let bodyStreams = new Map(); // sid -> ReadableStream controller of a request body still arriving

const b64 = (u8) => Buffer.from(u8).toString("base64");
const unb64 = (s) => new Uint8Array(Buffer.from(s ?? "", "base64"));

function lowerFirst(s) { return s.charAt(0).toLowerCase() + s.slice(1); }

async function load(msg) {
  const w = { clients: {}, routeFactories: {}, modules: [], errors: [] };
  const dir = join(msg.dir, "ts");
  let files = [];
  try { files = readdirSync(dir).filter((f) => f.endsWith(".ts")).sort(); } catch (e) { w.errors.push(String(e)); }
  for (const f of files) {
    try {
      const m = await import(pathToFileURL(join(dir, f)).href + "?v=" + (msg.nonce ?? 0));
      w.modules.push(f);
      for (const [name, val] of Object.entries(m)) {
        if (typeof val === "function" && /Client$/.test(name) && f.endsWith("_client.ts")) {
          w.clients[name.replace(/Client$/, "")] = val;
        }
        const rm = /^create(.+)Routes$/.exec(name);
        if (typeof val === "function" && rm && f.endsWith("_server.ts")) {
          w.routeFactories[rm[1]] = val;
        }
        if (f.endsWith("_server.ts") && name === "ValidationError") w.ServerValidationError = val;
        if (f.endsWith("_client.ts") && name === "ValidationError") w.ClientValidationError = val;
        if (f.endsWith("_client.ts") && name === "ApiError") w.ClientApiError = val;
      }
    } catch (e) {
      w.errors.push(f + ": " + (e && e.name ? e.name + ": " : "") + (e && e.message ? e.message : String(e)));
    }
  }
  worlds.set(msg.world, w);
  const routes = {};
  for (const [svc, factory] of Object.entries(w.routeFactories)) {
    try {
      routes[svc] = factory(makeHandler(msg.world, svc, null), {}).map((r) => ({ method: r.method, path: r.path }));
    } catch (e) {
      w.errors.push("create" + svc + "Routes: " + String(e && e.message ? e.message : e));
    }
  }
  out({ t: "loaded", world: msg.world, modules: w.modules, errors: w.errors, clients: Object.keys(w.clients).sort(), routes });
}

// The application handler of a TS server: every method is a proxy to the kernel.
function makeHandler(world, svc, sid) {
  // Methods behave like those of a class instance: they need their receiver. A route that
  // detaches a method (const f = handler.m; f(ctx, req)) loses `this`, exactly as it would
  // with a real handler object whose methods use their fields.
  const target = { svc };
  const proxy = new Proxy(target, {
    get(_t, prop) {
      if (typeof prop !== "string" || prop === "then") return undefined;
      return function (ctx, req) {
        if (this !== proxy) {
          throw new TypeError("handler method " + prop + " was called without its receiver (this is " + typeof this + ")");
        }
        return new Promise((resolve, reject) => {
          const hid = nextId++;
          pendingHandle.set(hid, { resolve, reject });
          const store = als.getStore();
          out({ t: "handle", sid: store ? store.sid : sid, hid, service: svc, method: prop, req, headers: ctx && ctx.headers, pathParams: ctx && ctx.pathParams });
        });
      };
    },
  });
  return proxy;
}

function simFetch(callId) {
  return (url, init) => new Promise((resolve, reject) => {
    const fid = nextId++;
    const headers = {};
    const h = new Headers(init && init.headers ? init.headers : {});
    for (const [k, v] of h.entries()) headers[k] = v;
    let body = "";
    if (init && init.body != null) {
      body = typeof init.body === "string" ? b64(new TextEncoder().encode(init.body)) : b64(init.body);
    }
    const signal = init && init.signal;
    if (signal && signal.aborted) {
      reject(signal.reason ?? new DOMException("This operation was aborted", "AbortError"));
      return;
    }
    pendingFetch.set(fid, { resolve, reject });
    if (signal) {
      signal.addEventListener("abort", () => {
        if (pendingFetch.delete(fid)) reject(signal.reason ?? new DOMException("This operation was aborted", "AbortError"));
      });
    }
    out({ t: "fetch", id: callId, fid, method: (init && init.method) || "GET", url: String(url), headers, body, hasBody: !!(init && init.body != null) });
  });
}

function describeError(w, e) {
  const d = { name: e && e.name, message: e && e.message ? String(e.message) : String(e) };
  if (w.ClientValidationError && e instanceof w.ClientValidationError) { d.kind = "validation"; d.violations = e.violations; }
  else if (w.ClientApiError && e instanceof w.ClientApiError) { d.kind = "api"; d.statusCode = e.statusCode; d.body = e.body; }
  else d.kind = "other";
  return d;
}

function call(msg) {
  const w = worlds.get(msg.world);
  const Cls = w && w.clients[msg.service];
  if (!Cls) { out({ t: "callResult", id: msg.id, ok: false, error: { kind: "harness", message: "no client class for " + msg.service } }); return; }
  const ctrl = new AbortController();
  controllers.set(msg.id, ctrl);
  let client;
  try {
    client = new Cls(msg.baseURL, { fetch: simFetch(msg.id), ...(msg.clientOptions || {}) });
  } catch (e) {
    out({ t: "callResult", id: msg.id, ok: false, error: describeError(w, e) });
    return;
  }
  const fn = client[msg.method];
  if (typeof fn !== "function") { out({ t: "callResult", id: msg.id, ok: false, error: { kind: "harness", message: "no method " + msg.method } }); return; }
  let p;
  try {
    p = fn.call(client, msg.req, { ...(msg.callOptions || {}), signal: ctrl.signal });
  } catch (e) {
    out({ t: "callResult", id: msg.id, ok: false, error: describeError(w, e), sync: true });
    return;
  }
  Promise.resolve(p).then(
    (value) => out({ t: "callResult", id: msg.id, ok: true, value: value === undefined ? null : value }),
    (e) => out({ t: "callResult", id: msg.id, ok: false, error: describeError(w, e) }),
  );
}

function matchRoute(routes, method, pathname) {
  const segs = pathname.split("/");
  const hits = [];
  for (const r of routes) {
    if (r.method !== method) continue;
    const rs = r.path.split("/");
    if (rs.length !== segs.length) continue;
    let ok = true;
    for (let i = 0; i < rs.length; i++) {
      if (rs[i].startsWith("{") && rs[i].endsWith("}")) { if (segs[i] === "") ok = false; continue; }
      if (rs[i] !== segs[i]) { ok = false; break; }
    }
    if (ok) hits.push(r);
  }
  return hits;
}

function routesFor(world, w, svc, factory, serverOptions) {
  const key = world + "|" + svc + "|" + JSON.stringify(serverOptions || {});
  let routes = routeCache.get(key);
  if (!routes) {
    routes = factory(makeHandler(world, svc, null), serverOptions || {});
    routeCache.set(key, routes);
  }
  return routes;
}

function serve(msg) {
  const w = worlds.get(msg.world);
  let hits = [];
  let anyPath = false;
  try {
    const u = new URL(msg.url, "http://sim.test");
    for (const [svc, factory] of Object.entries(w ? w.routeFactories : {})) {
      const routes = routesFor(msg.world, w, svc, factory, msg.serverOptions);
      for (const r of matchRoute(routes, msg.method, u.pathname)) hits.push({ svc, r });
      for (const r of routes) { if (matchRoute([{ ...r, method: msg.method }], msg.method, u.pathname).length) anyPath = true; }
    }
  } catch (e) {
    out({ t: "served", sid: msg.sid, routed: false, error: String(e && e.message ? e.message : e) });
    return;
  }
  if (hits.length !== 1) {
    out({ t: "served", sid: msg.sid, routed: false, matches: hits.length, pathKnown: anyPath });
    return;
  }
  const init = { method: msg.method, headers: msg.headers };
  if (msg.hasBody && msg.method !== "GET" && msg.method !== "HEAD") {
    if (msg.stream) {
      // the body arrives piece by piece, when the kernel delivers it (bodyChunk / bodyEnd / bodyError)
      init.body = new ReadableStream({ start(controller) { bodyStreams.set(msg.sid, controller); } });
      init.duplex = "half";
    } else {
      init.body = unb64(msg.body);
    }
  }
  let req;
  try {
    req = new Request(new URL(msg.url, "http://sim.test").href, init);
  } catch (e) {
    out({ t: "served", sid: msg.sid, routed: true, service: hits[0].svc, requestError: String(e && e.message ? e.message : e) });
    return;
  }
  let p;
  try { p = als.run({ sid: msg.sid }, () => hits[0].r.handler(req)); } catch (e) {
    out({ t: "served", sid: msg.sid, routed: true, service: hits[0].svc, threw: String(e && e.message ? e.message : e) });
    return;
  }
  Promise.resolve(p).then(async (resp) => {
    const headers = {};
    for (const [k, v] of resp.headers.entries()) headers[k] = v;
    const body = new Uint8Array(await resp.arrayBuffer());
    out({ t: "served", sid: msg.sid, routed: true, service: hits[0].svc, status: resp.status, headers, body: b64(body) });
  }, (e) => out({ t: "served", sid: msg.sid, routed: true, service: hits[0].svc, threw: String(e && e.message ? e.message : e) }));
}

function bodyPiece(msg) {
  const c = bodyStreams.get(msg.sid);
  if (!c) return;
  try {
    if (msg.t === "bodyChunk") c.enqueue(unb64(msg.data));
    else if (msg.t === "bodyEnd") { bodyStreams.delete(msg.sid); c.close(); }
    else { bodyStreams.delete(msg.sid); c.error(new TypeError("request body: " + (msg.message || "connection lost"))); }
  } catch (e) { /* stream already cancelled by the route */ }
}

function fetchResult(msg) {
  const p = pendingFetch.get(msg.fid);
  if (!p) return;
  pendingFetch.delete(msg.fid);
  if (msg.networkError) { p.reject(new TypeError("fetch failed: " + msg.networkError)); return; }
  try {
    const nullBody = msg.status === 204 || msg.status === 205 || msg.status === 304 || msg.status === 101;
    p.resolve(new Response(nullBody ? null : unb64(msg.body), { status: msg.status, headers: msg.headers }));
  } catch (e) {
    p.reject(new TypeError("fetch failed: " + String(e && e.message ? e.message : e)));
  }
}

function handleResult(msg) {
  const p = pendingHandle.get(msg.hid);
  if (!p) return;
  pendingHandle.delete(msg.hid);
  if (msg.error) {
    const w = worlds.get(msg.world);
    if (msg.error.kind === "validation" && w && w.ServerValidationError) p.reject(new w.ServerValidationError(msg.error.violations || []));
    else p.reject(new Error(msg.error.message));
    return;
  }
  p.resolve(msg.resp);
}

function reset() {
  pendingFetch = new Map();
  pendingHandle = new Map();
  controllers = new Map();
  routeCache = new Map();
  bodyStreams = new Map();
}

const rl = createInterface({ input: process.stdin, crlfDelay: Infinity });
const settle = () => new Promise((r) => setImmediate(() => setImmediate(r)));
for await (const line of rl) {
  if (!line.trim()) continue;
  let msg;
  try { msg = JSON.parse(line); } catch (e) { out({ t: "error", message: "bad json: " + e.message }); out({ t: "idle" }); continue; }
  try {
    switch (msg.t) {
      case "load": await load(msg); break;
      case "call": call(msg); break;
      case "serve": serve(msg); break;
      case "bodyChunk": case "bodyEnd": case "bodyError": bodyPiece(msg); break;
      case "fetchResult": fetchResult(msg); break;
      case "handleResult": handleResult(msg); break;
      case "abort": { const c = controllers.get(msg.id); if (c) c.abort(); break; }
      case "reset": reset(); break;
      case "exit": process.exit(0);
      default: out({ t: "error", message: "unknown message " + msg.t });
    }
  } catch (e) {
    out({ t: "error", message: String(e && e.stack ? e.stack : e) });
  }
  await settle();
  out({ t: "idle" });
}
