// Boot admission for emitted TypeScript: import every module; one JSON line per file.
import { pathToFileURL } from "node:url";
for (const f of process.argv.slice(2)) {
  try {
    await import(pathToFileURL(f).href);
    console.log(JSON.stringify({ file: f, ok: true }));
  } catch (e) {
    console.log(JSON.stringify({ file: f, ok: false, error: (e && e.name ? e.name + ": " : "") + (e && e.message ? e.message : String(e)) }));
  }
}
