// Package verifseam is copied into the scratch copy of /repo (as internal/verifseam)
// by the map-order pass: every range over a map in the generator packages iterates over
// Keys(site, m), a permutation derived from (VERIF_MAPSEED, site, nth visit); seed 0 is
// sorted order. Now() replaces time.Now() and reads VERIF_CLOCK.
package verifseam

import (
	"fmt"
	"hash/fnv"
	"os"
	"sort"
	"strconv"
	"time"
)

var (
	seed     uint64
	seedOnce bool
	visits   = map[string]uint64{}
	// Perturbed counts range sites whose visiting order differed from sorted order.
	Perturbed = map[string]int{}
)

func loadSeed() {
	if seedOnce {
		return
	}
	seedOnce = true
	if v := os.Getenv("VERIF_MAPSEED"); v != "" {
		seed, _ = strconv.ParseUint(v, 10, 64)
	}
}

func mix(z uint64) uint64 {
	z += 0x9e3779b97f4a7c15
	z = (z ^ (z >> 30)) * 0xbf58476d1ce4e5b9
	z = (z ^ (z >> 27)) * 0x94d049bb133111eb
	return z ^ (z >> 31)
}

// Keys returns the keys of m in the seam-controlled order.
func Keys[M ~map[K]V, K comparable, V any](site string, m M) []K {
	loadSeed()
	keys := make([]K, 0, len(m))
	for k := range m {
		keys = append(keys, k)
	}
	strs := make(map[any]string, len(keys))
	for _, k := range keys {
		strs[k] = fmt.Sprintf("%v", k)
	}
	sort.SliceStable(keys, func(a, b int) bool { return strs[keys[a]] < strs[keys[b]] })
	only := os.Getenv("VERIF_MAPSITE")
	if seed == 0 || len(keys) < 2 || (only != "" && only != site) {
		return keys
	}
	h := fnv.New64a()
	h.Write([]byte(site))
	visits[site]++
	s := mix(seed ^ h.Sum64() ^ (visits[site] * 0x9e3779b97f4a7c15))
	for i := len(keys) - 1; i > 0; i-- {
		s = mix(s)
		j := int(s % uint64(i+1))
		keys[i], keys[j] = keys[j], keys[i]
	}
	if f := os.Getenv("VERIF_MAPLOG"); f != "" {
		if fh, err := os.OpenFile(f, os.O_APPEND|os.O_CREATE|os.O_WRONLY, 0o644); err == nil {
			fmt.Fprintf(fh, "%s %d\n", site, len(keys))
			fh.Close()
		}
	}
	return keys
}

// Now replaces time.Now in the seamed generators.
func Now() time.Time {
	if v := os.Getenv("VERIF_CLOCK"); v != "" {
		if n, err := strconv.ParseInt(v, 10, 64); err == nil {
			return time.Unix(n, 0).UTC()
		}
	}
	return time.Unix(1700000000, 0).UTC()
}
