#!/bin/bash
# Runs the repository's pinned suite (guard off: there are no hooks) and reports how many of the
# 373 stable-pass tests pass.
cd /repo && go test -mod=mod -json -vet=off -count=1 ./... 2>/dev/null | python3 -c "
import sys,json
res={}
for l in sys.stdin:
    try: e=json.loads(l)
    except: continue
    if e.get('Action') in ('pass','fail','skip') and e.get('Test'):
        res[e['Package']+'::'+e['Test']]=e['Action']
b=json.load(open('/root/.vp/BASELINE.json'))
sp=set(b['stable_pass'])
bad=sorted(t for t in sp if res.get(t)!='pass')
print('stable_pass',len(sp),'passing',len(sp)-len(bad))
for t in bad[:20]: print('  NOT PASSING:',t,res.get(t))
sys.exit(1 if bad else 0)
"
