#!/usr/bin/env python3
"""Re-run the registered checks against every packaged broken version in /verif/seeded and
refresh meta.json["detection"]["now"].

For each <id>: git -C /repo apply seeded/<id>/patch.diff ; ./verif check <PROP> quick ;
if the owning check does not report a violation at quick, ./verif check <PROP> thorough ;
optional cross checks (meta["also_check"]) ; git -C /repo checkout -- .
/repo must be clean before and is clean after each patch.
usage: reeval_seeded.py [id-glob ...]   (default: all)"""
import fnmatch, glob, json, os, re, subprocess, sys, time

pats = sys.argv[1:] or ["*"]
env = dict(os.environ)
for k in ("GOTOOLCHAIN", "GOSUMDB", "GOFLAGS"):
    env.pop(k, None)
# the verdict (detected or not, and by which signatures) is what matters here, not a fully
# minimised replay: shorter shrinking and stop after the first batch with a violation
env["VERIF_SHRINKTIME"] = "3s"
env["VERIF_STOP_AFTER_FIRST"] = "1"

def sh(cmd, cwd=None, timeout=7200):
    p = subprocess.run(cmd, shell=True, cwd=cwd, capture_output=True, text=True, timeout=timeout, env=env)
    return p.returncode, p.stdout + p.stderr

def clean():
    return sh("git status --porcelain", cwd="/repo")[1].strip() == ""

def check(cid, tier):
    t0 = time.time()
    rc, out = sh(f"./verif check {cid} {tier}", cwd="/verif")
    sigs = sorted(set(re.findall(r"signature=(.*)", out)))
    viol = len(re.findall(r"^VIOLATION", out, re.M))
    return {"exit": rc, "violations": viol, "signatures": sigs[:4], "seconds": int(time.time() - t0)}

assert clean(), "/repo not clean"
for d in sorted(glob.glob("/verif/seeded/*/")):
    sid = os.path.basename(d.rstrip("/"))
    if not any(fnmatch.fnmatch(sid, p) for p in pats) or not os.path.exists(d + "meta.json"):
        continue
    meta = json.load(open(d + "meta.json"))
    prop = meta["breaks_property"]
    rc, out = sh(f"git apply {d}patch.diff", cwd="/repo")
    if rc != 0:
        print(sid, "patch does not apply to /repo HEAD:", out.strip()[:200]); continue
    now = {}
    try:
        now["quick"] = {prop: check(prop, "quick")}
        for c in meta.get("also_check", []):
            now["quick"][c] = check(c, "quick")
        if now["quick"][prop]["exit"] != 1:
            now["thorough"] = {prop: check(prop, "thorough")}
            if now["thorough"][prop]["exit"] != 1:
                for c in meta.get("also_check_thorough", []):
                    now["thorough"][c] = check(c, "thorough")
    finally:
        sh("git reset -q && git checkout -- . && git clean -fdq", cwd="/repo")
    assert clean(), "/repo not clean after " + sid
    meta["detection"]["now"] = now
    meta["detection"]["now_evaluated_against"] = {
        "verif_commit": sh("git rev-parse --short HEAD", cwd="/verif")[1].strip(),
        "repo_commit": sh("git rev-parse --short HEAD", cwd="/repo")[1].strip()}
    json.dump(meta, open(d + "meta.json", "w"), indent=1, ensure_ascii=False)
    print(sid, {t: {c: v["exit"] for c, v in r.items()} for t, r in now.items()}, flush=True)
