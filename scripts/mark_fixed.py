#!/usr/bin/env python3
"""Move known findings whose signature contains <substr> to the "fixed" list.
usage: mark_fixed.py <property> <signature-substring> <commit> "<what failed>"
The replay of the first moved finding is kept as replays/fixed/<name> (regression input for
./verif replay); the others are deleted."""
import json, os, sys, shutil
prop, sub, commit, what = sys.argv[1:5]
k = json.load(open("/verif/known_findings.json"))
keep, moved = [], []
for f in k["findings"]:
    (moved if f["property"] == prop and sub in f["signature"] else keep).append(f)
assert moved, "no finding matches"
os.makedirs("/verif/replays/fixed", exist_ok=True)
for i, f in enumerate(moved):
    src = "/verif/" + f["replay"]
    if os.path.exists(src):
        if i == 0:
            shutil.move(src, "/verif/replays/fixed/" + os.path.basename(src))
        else:
            os.remove(src)
    print("moved:", f["signature"])
k["findings"] = keep
k["fixed"].append(f"fixed: property={prop} {commit} {what}")
json.dump(k, open("/verif/known_findings.json", "w"), indent=1, ensure_ascii=False)
