#!/usr/bin/env python3
"""Development helper: run a check, and adopt every VIOLATION whose signature has a
written description in DESCRIPTIONS below (nothing is adopted silently)."""
import json, re, subprocess, sys
DESCRIPTIONS = {
 "C01|boot|optional-query|": "Go client does not compile when a proto3 optional field carries (sebuf.http.query): zero-value elision compares the pointer field with a scalar literal (req.F != 0 / != \"\")",
 "C01|boot|repeated-query|": "Go client does not compile when a repeated field carries (sebuf.http.query): zero-value elision compares the slice with a scalar literal",
 "C01|boot|same-method-name-in-two-services|": "two services in one file with a method of the same name: go-http emits get<Method>Headers (and <method>PathParams / QueryParams) once per service, so the package does not compile",
 "C01|call-failed|go>go|route-404|pathcfg=default|base=none": "method without (sebuf.http.config): Go server registers /<gopkg>/<snake_method>, Go client calls /<lowerCamelMethod> -> 404 (default-path rules differ per generator; recorded upstream as accepted backward-compat inconsistency)",
 "C01|call-failed|go>go|route-404|pathcfg=default|base=slash": "method without (sebuf.http.config) in a service with base_path: Go server registers <base>/<snake_method>, Go client calls <base>/<lowerCamelMethod> -> 404 for multi-word method names",
 "C02|bad-url-value-accepted|ts|path": "TS server does not reject an unconvertible path value (e.g. /items/abc for a numeric field): it dispatches with NaN / the raw string instead of answering 400 naming the field",
 "C02|bad-url-value-accepted|ts|query": "TS server does not reject an unconvertible query value (Number(\"abc\") = NaN is passed to the handler) instead of answering 400 naming the field",
 "C02|url-field-lost|ts|query": "TS server ignores query parameters on POST/PUT/PATCH routes: a query-annotated field given in the URL does not reach the handler unless the body repeats it",
 "C02|valid-request-not-dispatched|ts|fam=json|body=empty|status=500": "TS server answers 500 (Unexpected end of JSON input) to a POST/PUT/PATCH request with an empty body instead of dispatching with the URL-bound fields",
 "C02|valid-request-not-dispatched|ts|fam=json|body=absent|status=500": "TS server answers 500 to a POST/PUT/PATCH request without a body instead of dispatching with the URL-bound fields",
 "C03|matrix|openapi>ts|request-mismatch|query": "a client built from the OpenAPI document sends query parameters of a POST/PUT/PATCH operation in the URL (as the document says); the TS server ignores them, so the handler sees the field unset",
 "C03|operation-count|n=0|verbonly|base=none": "methods configured with a verb but no path in a service without base_path all map to OpenAPI path \"/\": operations of the same verb overwrite each other, so RPCs are missing from the document",
 "C03|operation-total|verbonly|base=none": "methods configured with a verb but no path: several RPCs collapse onto one OpenAPI path item, so the document has fewer operations than the service has RPCs",
 "C03|ts-route-vs-openapi|noconfig|base=none": "method without (sebuf.http.config): OpenAPI documents /<Service>/<Method>, TS server and clients use /<lowerCamelMethod> (and the Go server /<gopkg>/<snake_method>)",
 "C03|ts-route-vs-openapi|noconfig|base=slash": "method without (sebuf.http.config) under a base_path: OpenAPI documents <base> alone, TS server and clients use <base>/<lowerCamelMethod>",
 "C03|ts-route-vs-openapi|verbonly|base=slash": "method with a verb but no path under a base_path: OpenAPI documents <base> alone, TS server and clients use <base>/<lowerCamelMethod>",
 "C03|ts-route-vs-openapi|verbonly|base=none": "method with a verb but no path: OpenAPI documents \"/\", TS server and clients use /<lowerCamelMethod>",
 "C03|matrix|go>go|not-routed|noconfig|": "method without (sebuf.http.config): Go client request is not routed by the Go server (default-path rules differ)",
 "C03|matrix|go>go|not-routed|verbonly|": "method with a verb but no path: Go client request is not routed by the Go server (default-path rules differ)",
 "C09|dispatched-without-required-header|ts|invalid:date": "TS server accepts an impossible calendar date (2024-13-01) for a required header of format date (shape-only check)",
 "C09|dispatched-without-required-header|ts|invalid:time": "TS server accepts an impossible time (25:00:00) for a required header of format time (shape-only check)",
 "C09|dispatched-without-required-header|ts|invalid:date-time": "TS server accepts a malformed date-time for a required header of format date-time",
 "C09|offending-header-not-reported|ts|invalid:date": "TS server does not report a required header whose date value is impossible (2024-13-01) when another header is also violated",
 "C09|offending-header-not-reported|ts|invalid:time": "TS server does not report a required header whose time value is impossible (25:00:00) when another header is also violated",
 "C09|offending-header-not-reported|ts|invalid:date-time": "TS server does not report a required header whose date-time value is malformed when another header is also violated",
 "C09|dispatched-without-required-header|ts|empty": "TS server dispatches although a required header is present but empty",
 "C09|duplicate-violation|ts|override": "TS server validates a header twice when a method re-declares a service-level header (name differing in case): one missing header yields two violations",
 "C09|offending-header-not-reported|ts|empty": "TS server does not report a required header that is present but empty (Go server treats empty as missing)",
 "C09|valid-header-rejected|ts|override": "TS server keeps validating the service-level declaration after a method re-declared the same header (case-insensitively same name) with another type: a value valid for the method-level declaration is rejected",
 "C09|non-offending-header-reported|ts|override": "TS server reports the service-level declaration of a header that a method re-declared: a header valid for the method-level declaration appears in the violations",
 "C09|offending-header-not-reported|ts|override": "TS server misjudges a header that a method re-declared (case-insensitively same name as a service-level header): the offending header is missing from the violations list",
 "C09|dispatched-without-required-header|ts|override": "TS server dispatches although the method-level re-declaration of a service-level header is violated (it merges declarations by exact, case-sensitive name)",
 "C09|dispatched-without-required-header|ts|invalid:": "TS server accepts a value that is unambiguously invalid for the declared header type/format",
 "C09|offending-header-not-reported|ts|invalid:": "TS server does not report a header whose value is unambiguously invalid for the declared type/format",
 "C10|wrong-status|raw>ts|src=body|fam=json|nohook|want=400|got=500": "TS server answers a malformed JSON body with 500 {message} instead of 400 with a ValidationError",
 "C10|wrong-status|raw>ts|src=url|fam=json|nohook|want=400|got=200": "TS server answers 200 (dispatches) for an unconvertible URL value instead of 400 with a violation naming the field",
 "C10|wrong-status|ts>ts|src=url|": "TS server dispatches for an unconvertible URL value instead of answering 400",
}
DESCRIPTIONS.update({
 "C01|call-failed|go>go|response-decode|ct=application/json|out=AnnDisc": "message with a discriminated oneof (oneof_config) as JSON response: the variant is decoded with encoding/json instead of protojson, so a variant message with an int64 (string in proto3 JSON), enum, bytes or Timestamp field fails to decode in the Go client (Go server output is not accepted by the Go client)",
 "C01|call-failed|go>go|body-parse|ct=application/json|hasbody|in=AnnDisc": "message with a discriminated oneof (oneof_config) as JSON request: the Go server decodes the variant with encoding/json instead of protojson and rejects a valid body produced by the Go client (int64 / enum / bytes / Timestamp fields of the variant)",
 "C01|call-failed|go>go|response-decode|ct=application/json|out=AnnDiscFlat": "message with a flattened discriminated oneof as JSON response: the variant's child fields are re-decoded with encoding/json instead of protojson, so int64 / enum / bytes / Timestamp children fail to decode in the Go client",
 "C01|call-failed|go>go|body-parse|ct=application/json|hasbody|in=AnnDiscFlat": "message with a flattened discriminated oneof as JSON request: the Go server re-decodes the variant's child fields with encoding/json instead of protojson and rejects a valid body produced by the Go client",
 "C01|call-failed|go>go|response-decode|ct=application/json|out=AnnFlat": "message with flatten fields as JSON response: the flattened child is decoded with encoding/json instead of protojson, so int64 / enum / bytes / Timestamp children fail to decode in the Go client",
 "C01|call-failed|go>go|body-parse|ct=application/json|hasbody|in=AnnFlat": "message with flatten fields as JSON request: the Go server decodes the flattened child with encoding/json instead of protojson and rejects a valid body produced by the Go client",
})

DESCRIPTIONS.update({
 "C01|boot|unwrap.pb.go|cannot use k (variable of type": "unwrap codec for a map whose key type is not string (e.g. map<uint32, Wrapper>): the emitted *_unwrap.pb.go indexes the map with a string key and does not compile",
 "C01|response-mismatch|go>go|ct=application/json|out=AnnFlat|": "message with flatten fields as JSON response: a flattened child (e.g. {ok:true}) is lost on decode in the Go client (flatten round trip through encoding/json)",
 "C01|request-mismatch|go>go|ct=application/json|in=AnnFlat|": "message with flatten fields as JSON request: a flattened child is lost or altered when the Go server decodes the body the Go client produced",
})

DESCRIPTIONS.update({
 "C01|rule-not-enforced|go>go|ct=application/json|in=AnnFlat": "message with flatten fields as JSON request: because the flattened child is lost on decode, a request whose child violates a validation rule is dispatched instead of being rejected",
 "C01|rule-not-enforced|go>go|ct=application/json|in=AnnDisc": "message with a discriminated oneof as JSON request: because the variant is mis-decoded, a request whose variant violates a validation rule is dispatched instead of being rejected",
})

DESCRIPTIONS.update({
 "C09|published-headers-rejected|go|listed-twice-case-variant": "when a method re-declares a service-level header with different letter case, the OpenAPI document lists both spellings as separate header parameters (CombineHeaders merges by exact name) while the Go server merges case-insensitively: a request carrying both published parameters is rejected",
 "C09|published-headers-rejected|ts|listed-twice-case-variant": "when a method re-declares a service-level header with different letter case, the OpenAPI document lists both spellings as separate header parameters; the TS server validates both declarations against the single (case-insensitive) HTTP header and rejects a request that follows the document",
})

DESCRIPTIONS.update({
 "C01|call-failed|go>go|response-decode|ct=application/json|out=AnnDisc2": "message with two discriminated oneofs as JSON response: variants are decoded with encoding/json instead of protojson (same defect as AnnDisc)",
 "C01|call-failed|go>go|body-parse|ct=application/json|hasbody|in=AnnDisc2": "message with two discriminated oneofs as JSON request: the Go server decodes variants with encoding/json and rejects a valid body (same defect as AnnDisc)",
 "C01|rule-not-enforced|go>go|ct=application/json|in=AnnDisc2": "message with two discriminated oneofs as JSON request: mis-decoded variant escapes rule validation (same defect as AnnDisc)",
 "C01|request-mismatch|go>go|ct=application/json|in=AnnDisc2|": "message with two discriminated oneofs as JSON request: variant content altered by the encoding/json round trip (same defect as AnnDisc)",
 "C01|response-mismatch|go>go|ct=application/json|out=AnnDisc2|": "message with two discriminated oneofs as JSON response: variant content altered by the encoding/json round trip (same defect as AnnDisc)",
})

def describe(sig):
    best = None
    for k, v in DESCRIPTIONS.items():
        if sig.startswith(k) and (best is None or len(k) > len(best[0])):
            best = (k, v)
    return best[1] if best else None
prop = sys.argv[1]
tier = sys.argv[2] if len(sys.argv) > 2 else "quick"
out = subprocess.run(["./verif", "check", prop, tier], cwd="/verif", capture_output=True, text=True).stdout
lines = out.splitlines()
n = 0
for i, l in enumerate(lines):
    m = re.match(r"VIOLATION property=(\S+) replay=(\S+)", l)
    if not m: continue
    sig = None
    if i + 1 < len(lines):
        ms = re.search(r"signature=(.*)$", lines[i + 1])
        if ms: sig = ms.group(1).strip()
    d = describe(sig or "")
    if not d:
        print("NO DESCRIPTION:", sig); print("   ", lines[i+2][:300] if i+2 < len(lines) else ""); continue
    subprocess.run(["/verif/scripts/adopt.py", m.group(2), d])
    n += 1
print(prop, "adopted", n, "| known-finding lines:", sum(1 for l in lines if l.startswith("KNOWN-FINDING")), "| exit summary:", [l for l in lines if l.startswith("summary")][-1:] )
