#!/usr/bin/env python3
"""Adopt replay files under /verif/replays as known findings (development helper; the
checks themselves never write known_findings.json).
usage: adopt.py <replay.json> "<what fails>"
"""
import json, os, shutil, sys, hashlib
kf_path = "/verif/known_findings.json"
kf = json.load(open(kf_path)) if os.path.exists(kf_path) else {"findings": [], "fixed": []}
rp, what = sys.argv[1], sys.argv[2]
r = json.load(open(rp))
sig = r["signature"]
if any(f["signature"] == sig for f in kf["findings"]):
    print("already known:", sig); sys.exit(0)
h = hashlib.sha256(sig.encode()).hexdigest()[:8]
dst = f"replays/known/{r['property']}-{h}.json"
shutil.copy(rp, "/verif/" + dst)
kf["findings"].append({"property": r["property"], "signature": sig, "what": what, "replay": dst})
kf["findings"].sort(key=lambda f: (f["property"], f["signature"]))
json.dump(kf, open(kf_path, "w"), indent=1, ensure_ascii=False)
print("adopted", sig, "->", dst)
