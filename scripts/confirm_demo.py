#!/usr/bin/env python3
"""Confirm a sub-agent demonstration whose README gives a cp + go test recipe (no uniform
run.sh): run the README's command block without and with the patch in the agent's own
scratch worktree. usage: confirm_demo.py <PROP> <n>"""
import os, re, subprocess, sys, json
prop, n = sys.argv[1], sys.argv[2]
D, WT = f"/tmp/mut/{prop}.out/{n}", f"/tmp/mut/{prop}"
env = dict(os.environ, GOFLAGS="-mod=mod", GOPROXY="off")
for k in ("GOTOOLCHAIN", "GOSUMDB"): env.pop(k, None)
def sh(c, cwd=WT):
    p = subprocess.run(c, shell=True, cwd=cwd, capture_output=True, text=True, env=env, timeout=3000)
    return p.returncode, (p.stdout + p.stderr)
def clean(): sh("git checkout -- . && git clean -fdq")
readme = open(f"{D}/demo/README.md").read()
run = f"{D}/demo/run.sh"
res = {}
if os.path.exists(run) and re.search(r"run\.sh\s+(with|without)", readme):
    clean(); rc0, o0 = sh(f"sh {run} without"); clean(); rc1, o1 = sh(f"sh {run} with"); clean()
else:
    # indented command block: lines starting with 4 spaces, take cp / cd&&go test lines
    cmds = [l.strip() for l in readme.splitlines() if l.startswith("    ") and l.strip() and not l.strip().startswith("#")]
    cps = [c for c in cmds if c.startswith("cp ") or c.startswith("mkdir ")]
    tests = [c for c in cmds if "go test" in c or "go run" in c]
    def once():
        out = ""
        for c in cps: out += sh(c)[1]
        rc = 0
        for c in tests[:1]:
            r, o = sh(c.split("#")[0]); rc |= r; out += o
        return rc, out
    clean(); rc0, o0 = once(); clean()
    sh(f"git apply {D}/patch.diff"); rc1, o1 = once(); clean()
res = {"property": prop, "mutant": n, "without_patch_exit": rc0, "with_patch_exit": rc1, "confirmed": rc0 == 0 and rc1 != 0,
       "tail_with": o1.strip()[-400:], "tail_without": o0.strip()[-200:]}
print(json.dumps(res, indent=1))
json.dump(res, open(f"/tmp/mut/results/demo-{prop}-{n}.json", "w"), indent=1)
