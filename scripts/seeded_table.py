#!/usr/bin/env python3
"""Render the sensitivity table (DESIGN.md §10.5) from /verif/seeded/*/meta.json."""
import json, glob
rows = []
for f in sorted(glob.glob("/verif/seeded/*/meta.json")):
    m = json.load(open(f))
    now = m["detection"]["now"]
    det = []
    for tier, checks in now.items():
        for c, v in checks.items():
            if v["exit"] == 1:
                det.append(f"{c} {tier}: " + "; ".join(s.split("|", 1)[1] if "|" in s else s for s in v["signatures"][:2]))
    first = m["detection"]["first_run_before_strengthening"]
    missed = first.upper().startswith("MISSED") or first.lower().startswith("initially")
    rows.append((m["id"], m["needs_to_manifest"], "missed at first" if missed else "caught at first", m["detection"].get("strengthening", ""), " / ".join(det) or "NOT DETECTED"))
print("| id | needs to manifest | first run | strengthening | caught now by |")
print("|---|---|---|---|---|")
for r in rows:
    print("| " + " | ".join(x.replace("|", "\\|").replace("\n", " ") for x in r) + " |")
