#!/bin/bash
# Runs every claimed check against every property-preserving change under /verif/benign
# (git -C /repo apply, ./verif check <ID> <tier> for all ten, git -C /repo checkout -- .).
# A correct change must give exit 0 everywhere; anything else is a false alarm (1) or a
# broken harness (2). usage: benign_eval.sh [quick|thorough] > report
tier=${1:-quick}
for d in /verif/benign/*/; do
  id=$(basename $d)
  cd /repo; git status --porcelain | grep -q . && { echo "/repo not clean"; exit 1; }
  git apply $d/patch.diff 2>/dev/null || { echo "$id patch does not apply"; continue; }
  line="$id"
  for c in C01 C02 C03 C08 C09 C10 C11 C15 C17 C20; do
    cd /verif; env -u GOTOOLCHAIN -u GOSUMDB -u GOFLAGS VERIF_SHRINKTIME=3s ./verif check $c $tier > /tmp/benign-$id-$c.log 2>&1
    line="$line $c=$?"
  done
  echo "$line"
  cd /repo; git reset -q; git checkout -- .; git clean -fdq
done
