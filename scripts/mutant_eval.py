#!/usr/bin/env python3
"""Evaluate one sub-agent mutant: confirm it applies, builds, keeps the baseline suite
green, that its demonstration fails with / passes without the patch, and run the
property's check(s) against it in /repo (applied, then reverted).
usage: mutant_eval.py <PROP> <n> [tier] [extra check ids...]"""
import json, os, subprocess, sys, shutil, re, glob
prop, n = sys.argv[1], sys.argv[2]
tier = sys.argv[3] if len(sys.argv) > 3 else "quick"
extra = [a for a in sys.argv[4:] if not a.startswith("--")]
wave = next((a.split("=")[1] for a in sys.argv[4:] if a.startswith("--wave=")), "1")
BASE = "/tmp/mut" if wave == "1" else f"/tmp/mut/w{wave}"
D = f"{BASE}/{prop}.out/{n}"
WT = f"{BASE}/{prop}"
patch = f"{D}/patch.diff"
res = {"property": prop, "mutant": n, "patch": patch}
def sh(cmd, cwd=None, timeout=3600, env=None):
    e = dict(os.environ); e.update({"GOFLAGS": "-mod=mod", "GOPROXY": "off"}); e.update(env or {})
    p = subprocess.run(cmd, shell=True, cwd=cwd, capture_output=True, text=True, timeout=timeout, env=e)
    return p.returncode, p.stdout + p.stderr
# clean states
sh("git checkout -- . && git clean -fdq", cwd=WT)
assert sh("git status --porcelain", cwd="/repo")[1].strip() == "", "/repo not clean"
# (a) applies to current /repo HEAD?
rc, out = sh(f"git apply --check {patch}", cwd="/repo")
res["applies_to_repo_head"] = rc == 0
if rc != 0:
    rc3, out3 = sh(f"git apply --3way --check {patch}", cwd="/repo")
    res["applies_3way"] = rc3 == 0
    res["apply_error"] = out.strip()[:300]
# (b) scratch worktree at /repo HEAD: build + baseline
CK = "/tmp/mutcheck"
sh(f"git worktree remove --force {CK}", cwd="/repo"); shutil.rmtree(CK, ignore_errors=True)
sh(f"git worktree add -q --detach {CK} HEAD", cwd="/repo")
ap = "git apply" if res["applies_to_repo_head"] else "git apply --3way"
rc, out = sh(f"{ap} {patch}", cwd=CK)
res["applied_in_scratch"] = rc == 0
if rc == 0:
    rc, out = sh("go build ./...", cwd=CK)
    res["builds"] = rc == 0
    rc, out = sh("go test -mod=mod -json -vet=off -count=1 ./... 2>/dev/null", cwd=CK, timeout=1800)
    tests = {}
    for l in out.splitlines():
        try: e = json.loads(l)
        except Exception: continue
        if e.get("Action") in ("pass", "fail", "skip") and e.get("Test"):
            tests[e["Package"] + "::" + e["Test"]] = e["Action"]
    sp = set(json.load(open("/root/.vp/BASELINE.json"))["stable_pass"])
    bad = sorted(t for t in sp if tests.get(t) != "pass")
    res["baseline_passing"] = len(sp) - len(bad)
    res["baseline_bad"] = bad[:5]
sh(f"git worktree remove --force {CK}", cwd="/repo"); shutil.rmtree(CK, ignore_errors=True)
# (c) demonstration in the agent's own worktree (pristine old HEAD) with and without the patch
run = f"{D}/demo/run.sh"
if os.path.exists(run):
    sh(f"git apply {patch}", cwd=WT)
    rc1, o1 = sh(f"bash {run}", cwd=WT, timeout=1800)
    sh("git checkout -- . && git clean -fdq", cwd=WT)
    rc0, o0 = sh(f"bash {run}", cwd=WT, timeout=1800)
    sh("git checkout -- . && git clean -fdq", cwd=WT)
    res["demo_with_patch_exit"], res["demo_without_patch_exit"] = rc1, rc0
    res["demo_confirmed"] = rc1 != 0 and rc0 == 0
    res["demo_tail_with"] = o1.strip()[-300:]
else:
    res["demo_confirmed"] = None
    res["demo_note"] = "no run.sh: see README"
# (d) my checks against the mutant in /repo
results = {}
if res.get("applied_in_scratch") and res.get("builds"):
    rc, out = sh(f"{ap} {patch}", cwd="/repo")
    try:
        for cid in [prop] + extra:
            rc, out = sh(f"./verif check {cid} {tier}", cwd="/verif", timeout=7200)
            sigs = re.findall(r"signature=(.*)", out)
            results[cid] = {"exit": rc, "violations": len(re.findall(r"^VIOLATION", out, re.M)), "signatures": sigs[:6]}
    finally:
        sh("git reset -q && git checkout -- . && git clean -fdq", cwd="/repo")
res["checks"] = results
assert sh("git status --porcelain", cwd="/repo")[1].strip() == "", "/repo not clean after eval"
print(json.dumps(res, indent=1))
os.makedirs("/tmp/mut/results", exist_ok=True)
tag = "" if wave == "1" else f"w{wave}-"
json.dump(res, open(f"/tmp/mut/results/{tag}{prop}-{n}-{tier}.json", "w"), indent=1)
