#!/usr/bin/env python3
"""Copy confirmed sub-agent mutants into /verif/seeded/<id>/ with meta.json.
usage: package_seeded.py <wave> <PROP> <n> "<needs>" "<first_result>" "<strengthening or ''>" """
import json, os, shutil, sys, glob, re
wave, prop, n, needs, first, strengthened = sys.argv[1:7]
D = f"/tmp/mut/{prop}.out/{n}" if wave == "1" else f"/tmp/mut/w{wave}/{prop}.out/{n}"
sid = f"{prop}-w{wave}-{n}"
dst = f"/verif/seeded/{sid}"
shutil.rmtree(dst, ignore_errors=True)
os.makedirs(dst)
shutil.copy(f"{D}/patch.diff", f"{dst}/patch.diff")
# demonstration: copy the demo dir but drop bulky generated output
def ignore(d, names):
    return [x for x in names if x in ("out", "node_modules") or x.endswith(".test")]
shutil.copytree(f"{D}/demo", f"{dst}/demo", ignore=ignore)
if os.path.exists(f"{D}/notes.md"):
    shutil.copy(f"{D}/notes.md", f"{dst}/notes.md")
# results
res = {}
tagp = "" if wave == "1" else f"w{wave}-"
for f in sorted(glob.glob(f"/tmp/mut/results/{tagp}{prop}-{n}-*.json")):
    r = json.load(open(f)); tier = f.rsplit("-", 1)[1].split(".")[0]
    res[tier] = r
demo = None
for f in (f"/tmp/mut/results/demo-{prop}-{n}.json",):
    if os.path.exists(f): demo = json.load(open(f))
last = res.get("quick") or next(iter(res.values()))
if demo is None:
    demo = {"confirmed": last.get("demo_confirmed")}
title = ""
if os.path.exists(f"{D}/notes.md"):
    for l in open(f"{D}/notes.md"):
        if l.strip():
            title = l.strip().lstrip("# ").strip(); break
meta = {
 "id": sid, "breaks_property": prop, "source": f"sub-agent wave {wave} (given only the property text and a scratch worktree)",
 "summary": title,
 "needs_to_manifest": needs,
 "confirmed_by_me": {
   "applies_to_repo_head": last.get("applies_to_repo_head"), "builds": last.get("builds"),
   "baseline_stable_pass_of_373": last.get("baseline_passing"),
   "demonstration_fails_with_patch_and_passes_without": demo.get("confirmed"),
   "how": "scripts/mutant_eval.py (scratch worktree at /repo HEAD: git apply, go build ./..., go test -json vs BASELINE stable_pass; demo run in the agent's worktree with and without the patch) and scripts/confirm_demo.py",
 },
 "detection": {
   "first_run_before_strengthening": first,
   "strengthening": strengthened,
   "now": {t: {c: {"exit": v["exit"], "signatures": v["signatures"][:4]} for c, v in r["checks"].items()} for t, r in res.items()},
   "command": f"git -C /repo apply /verif/seeded/{sid}/patch.diff && ./verif check {prop} quick; git -C /repo checkout -- .",
 },
}
json.dump(meta, open(f"{dst}/meta.json", "w"), indent=1, ensure_ascii=False)
print("packaged", sid, "detected:", {t: {c: v["exit"] for c, v in r["checks"].items()} for t, r in res.items()})
